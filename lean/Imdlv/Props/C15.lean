import Imdlv.Lemmas.Lints
import Imdlv.Props.C14
/-!
# C15 — automatic piece length is a sane power of two and never decreases

`pick = pickWith clog2`; the code computes the exponent with `f64`
(`ceil(log2(n as f64))`), which is inexact above 2^49; `pick_insensitive` shows
any exponent function that is right up to 2^40 and at least 40 above gives the
same result for every `n`, so only the (exhaustively checked) small exponents matter.
-/
namespace Imdlv.C15
open Imdlv.Lints

/-- the extracted constants are the published ones -/
theorem consts_published :
    Consts.pickerDiv = 2 ∧ Consts.pickerOff = 4 ∧ Consts.pickerMinKiB = 16 ∧ Consts.pickerMaxMiB = 16 ∧
    Consts.tableFrom = 14 ∧ Consts.tableTo = 51 := by decide

theorem pickWith_eq (e : Nat → Nat) (n : Nat) :
    pickWith e n = min (max (2 ^ (e (max n 1) / 2 + 4)) (2 ^ 14)) (2 ^ 24) := by
  unfold pickWith
  obtain ⟨h1, h2, h3, h4, _, _⟩ := consts_published
  rw [h1, h2, h3, h4]

/-- **Bounds**: between 16 KiB and 16 MiB inclusive, for every content size. -/
theorem pick_bounds (n : Nat) : 16 * 1024 ≤ pick n ∧ pick n ≤ 16 * 1024 * 1024 := by
  unfold pick; rw [pickWith_eq]; omega

/-- **Power of two**, for every content size. -/
theorem pick_pow2 (n : Nat) : ∃ k, pick n = 2 ^ k := by
  unfold pick; rw [pickWith_eq]
  generalize clog2 (max n 1) / 2 + 4 = x
  by_cases h1 : 2 ^ x ≤ 2 ^ 14
  · exact ⟨14, by omega⟩
  · by_cases h2 : 2 ^ x ≤ 2 ^ 24
    · exact ⟨x, by omega⟩
    · exact ⟨24, by omega⟩

/-- **Monotone**: never decreases as the content grows. -/
theorem pick_mono {m n : Nat} (h : m ≤ n) : pick m ≤ pick n := by
  unfold pick; rw [pickWith_eq, pickWith_eq]
  have h1 : clog2 (max m 1) ≤ clog2 (max n 1) := clog2_mono (by omega)
  have h2 : clog2 (max m 1) / 2 + 4 ≤ clog2 (max n 1) / 2 + 4 := by
    have := Nat.div_le_div_right (c := 2) h1; omega
  have h3 := Nat.pow_le_pow_right (n := 2) (by omega) h2
  omega

/-- **Table at powers of two**: `pick (2^k) = clamp (2^(k/2+4))`. -/
theorem pick_two_pow (k : Nat) : pick (2 ^ k) = min (max (2 ^ (k / 2 + 4)) (2 ^ 14)) (2 ^ 24) := by
  unfold pick; rw [pickWith_eq]
  have : max (2 ^ k) 1 = 2 ^ k := by have := Nat.two_pow_pos k; omega
  rw [this, clog2_two_pow]

/-- 16 KiB up to 2 MiB of content -/
theorem table_low (k : Nat) (h : k ≤ 21) : pick (2 ^ k) = 16 * 1024 := by
  rw [pick_two_pow]
  have : k / 2 + 4 ≤ 14 := by omega
  have := Nat.pow_le_pow_right (n := 2) (by omega) this
  omega

/-- then doubling with every fourfold growth -/
theorem table_mid (k : Nat) (h1 : 20 ≤ k) (h2 : k ≤ 40) : pick (2 ^ k) = 2 ^ (k / 2 + 4) := by
  rw [pick_two_pow]
  have a : 14 ≤ k / 2 + 4 := by omega
  have b : k / 2 + 4 ≤ 24 := by omega
  have := Nat.pow_le_pow_right (n := 2) (by omega) a
  have := Nat.pow_le_pow_right (n := 2) (by omega) b
  omega

/-- 16 MiB from 1 TiB on -/
theorem table_high (n : Nat) (h : 2 ^ 40 ≤ n) : pick n = 16 * 1024 * 1024 := by
  have h1 := pick_mono h
  rw [pick_two_pow] at h1
  have := (pick_bounds n).2
  have : (2:Nat) ^ (40 / 2 + 4) = 2 ^ 24 := by decide
  omega

/-- the 37 rows printed by `imdl torrent piece-length` / published in the book -/
theorem pick_table : table.map (fun r => (Nat.log2 r.1, Nat.log2 r.2)) =
    [(14,14),(15,14),(16,14),(17,14),(18,14),(19,14),(20,14),(21,14),(22,15),(23,15),(24,16),(25,16),
     (26,17),(27,17),(28,18),(29,18),(30,19),(31,19),(32,20),(33,20),(34,21),(35,21),(36,22),(37,22),
     (38,23),(39,23),(40,24),(41,24),(42,24),(43,24),(44,24),(45,24),(46,24),(47,24),(48,24),(49,24),(50,24)] := by
  decide +kernel

theorem table_rows_are_powers : table.all (fun r => 2 ^ Nat.log2 r.1 == r.1 && 2 ^ Nat.log2 r.2 == r.2) = true := by
  decide +kernel

/-- **Float robustness**: any exponent function that agrees with `clog2` up to
2^40 and is at least 40 above it yields the same piece length everywhere. -/
theorem pick_insensitive (e : Nat → Nat)
    (hlow : ∀ n, n ≤ 2 ^ 40 → e n = clog2 n) (hhigh : ∀ n, 2 ^ 40 < n → 40 ≤ e n) :
    ∀ n, pickWith e n = pick n := by
  intro n
  by_cases h : max n 1 ≤ 2 ^ 40
  · unfold pick pickWith; rw [hlow _ h]
  · have hn : 2 ^ 40 < max n 1 := by omega
    have hn' : 2 ^ 40 ≤ n := by omega
    rw [table_high n hn', pickWith_eq]
    have h1 := hhigh _ hn
    have h2 : 24 ≤ e (max n 1) / 2 + 4 := by omega
    have := Nat.pow_le_pow_right (n := 2) (by omega) h2
    omega

/-- **Consequence for create**: an automatically chosen piece length is never
rejected by the piece-length rules, under the empty allow set. -/
theorem pick_passes_lints (n : Nat) (ann : Bool) :
    createDecision (fun _ => false) (pick n) false ann = .ok (pick n) := by
  rw [C14.accept_iff]
  obtain ⟨hlo, hhi⟩ := pick_bounds n
  refine ⟨rfl, by omega, by omega, ?_⟩
  intro l hv
  exfalso
  cases l with
  | privateTrackerless => simp [violated] at hv
  | smallPieceLength =>
    have := (C14.small_iff (pick n) false ann).mp hv
    omega
  | unevenPieceLength =>
    have := (C14.uneven_iff (pick n) false ann (by omega)).mp hv
    exact this (pick_pow2 n)

/-! ## Non-vacuity -/
example : pick 0 = 16384 ∧ pick (2 ^ 22) = 32768 ∧ pick (2 ^ 22 + 1) = 32768 ∧ pick (2 ^ 64 - 1) = 16777216 := by
  decide +kernel

end Imdlv.C15
