import Imdlv.Lemmas.Bencode
import Imdlv.Model.Infohash
/-!
# C04 — the reported infohash is the SHA-1 of the info dictionary exactly as stored

For every byte string `b` the generic decoder accepts — whatever unknown keys,
non-UTF-8 strings, nested values or trailing bytes it carries — and any nesting
limit. `H` arbitrary.
-/
namespace Imdlv.C04
open Imdlv Imdlv.Bencode Imdlv.Infohash

variable {δ : Type}

/-- **Infohash = H(exact stored span of `info`)**: whenever `Infohash::from_input`
succeeds, the value-free scanner finds a span `s` for key `info`, `s` is a
contiguous part of the input, and the reported hash is `H s`. -/
theorem infohash_is_span (H : Bytes → δ) (depth : Nat) (b : Bytes) (h : δ)
    (hok : infohashFromInput H depth b = .ok h) :
    ∃ s, findSpan infoKey b = some s ∧ h = H s ∧ ∃ pre post, b = pre ++ s ++ post := by
  unfold infohashFromInput decodeTop at hok
  cases hd : decode (b.length + 1) depth b with
  | none => simp [hd] at hok
  | some p =>
    obtain ⟨v, r⟩ := p
    cases v with
    | int _ _ => simp [hd] at hok
    | bytes _ => simp [hd] at hok
    | list _ => simp [hd] at hok
    | dict d =>
      simp only [hd] at hok
      cases hl : d.lookup infoKey with
      | none => simp [hl] at hok
      | some iv =>
        cases iv with
        | int _ _ => simp [hl] at hok
        | bytes _ => simp [hl] at hok
        | list _ => simp [hl] at hok
        | dict i =>
          simp only [hl, Except.ok.injEq] at hok
          -- the top-level step of the decoder was the dictionary branch
          unfold decode at hd
          cases hk : tok b with
          | eof => simp [hk] at hd
          | int t =>
            simp only [hk] at hd
            cases hdi : decInt t with
            | none => simp [hdi] at hd
            | some q =>
              obtain ⟨⟨ng, m⟩, r'⟩ := q
              simp only [hdi] at hd
              split at hd <;> simp at hd
          | list t =>
            simp only [hk] at hd
            split at hd
            · cases hd
            · cases hdl : decodeList b.length (depth - 1) t with
              | none => simp [hdl] at hd
              | some q => obtain ⟨x, y⟩ := q; simp [hdl] at hd
          | other =>
            simp only [hk] at hd
            cases hdb : decBytes b with
            | none => simp [hdb] at hd
            | some q => obtain ⟨x, y⟩ := q; simp [hdb] at hd
          | dict t =>
            simp only [hk] at hd
            split at hd
            · cases hd
            · cases hdd : decodeDict b.length (depth - 1) none t with
              | none => simp [hdd] at hd
              | some q =>
                obtain ⟨d', r'⟩ := q
                simp only [hdd, Option.some.injEq, Prod.mk.injEq, BVal.dict.injEq] at hd
                obtain ⟨rfl, rfl⟩ := hd
                have hb := tok_dict b t hk
                have hlen : b.length = t.length + 1 := by rw [hb]; simp
                refine ⟨encode (.dict i), ?_, hok.symm, ?_⟩
                · unfold findSpan
                  simp only [hk]
                  rw [← hlen, findInPairs_of_decodeDict infoKey _ _ _ _ _ _ hdd, hl]
                  rfl
                · have hs := (decode_sound b.length).2.2 _ _ _ _ _ hdd
                  obtain ⟨pre, post, e⟩ := lookup_subspan infoKey d' _ hl
                  refine ⟨100 :: pre, post ++ [101] ++ r', ?_⟩
                  rw [hb]; conv => lhs; rw [hs, e]
                  simp [List.append_assoc]

/-- in particular the model agrees with the specification function -/
theorem infohash_eq_spec (H : Bytes → δ) (depth : Nat) (b : Bytes) (h : δ)
    (hok : infohashFromInput H depth b = .ok h) : infohashSpec H b = some h := by
  obtain ⟨s, hs, hh, _⟩ := infohash_is_span H depth b h hok
  simp [infohashSpec, hs, hh]

/-- the nesting limit only decides acceptance, never the value -/
theorem infohash_depth_irrelevant (H : Bytes → δ) (d₁ d₂ : Nat) (b : Bytes) (h₁ h₂ : δ)
    (hok₁ : infohashFromInput H d₁ b = .ok h₁) (hok₂ : infohashFromInput H d₂ b = .ok h₂) : h₁ = h₂ := by
  have e1 := infohash_eq_spec H d₁ b h₁ hok₁
  have e2 := infohash_eq_spec H d₂ b h₂ hok₂
  rw [e1] at e2; exact Option.some.inj e2

/-! ## Non-vacuity: unknown keys inside and outside `info`, trailing bytes -/
-- d 1:a i1e 4:info d 1:x l i-5e e 1:z 0: e 3:zzz 2:ok e  followed by trailing "junk"
def sample : Bytes := "d1:ai1e4:infod1:xli-5ee1:z0:e3:zzz2:okejunk".toUTF8.toList
example : (match infohashFromInput id 64 sample with | .ok s => s == "d1:xli-5ee1:z0:e".toUTF8.toList | .error _ => false) = true := by decide +kernel
example : findSpan infoKey sample = some "d1:xli-5ee1:z0:e".toUTF8.toList := by decide +kernel

end Imdlv.C04
