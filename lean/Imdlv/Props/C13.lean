import Imdlv.Lemmas.Verifier
import Imdlv.Props.C03
/-!
# C13 — verify judges only files inside the content root

`leavesRoot` is the specification-level notion (lexical resolution of the raw
listed components, with `/` inside a component treated as a separator);
`isNormalComp` is the screening the repaired `Verifier::new` applies.
-/
namespace Imdlv.C13
open Imdlv Imdlv.Verifier

variable {δ ε : Type} [DecidableEq δ] [DecidableEq ε]

/-- a path whose lexical resolution leaves the root has a component the screening rejects -/
theorem leavesRoot_has_bad_component (p : RelPath) (h : leavesRoot p = true) :
    ∃ c ∈ p, isNormalComp c = false := by
  apply Classical.byContradiction
  intro hno
  have hall : ∀ c ∈ p, isNormalComp c = true := by
    intro c hc
    cases hn : isNormalComp c with
    | true => rfl
    | false => exact absurd ⟨c, hc, hn⟩ hno
  have := lexWalk_normal p hall 0
  simp [leavesRoot, this] at h

/-- **Confinement**: if any listed path leaves the content root — whatever the
file system holds there, including a decoy with matching bytes — verification
does not succeed. For all torrents, file systems and read schedules. -/
theorem confined (H : Bytes → δ) (H5 : Bytes → ε) (t : Torrent δ ε) (fs : FS) (scheds : List (List Nat))
    (h : ∃ f ∈ entries t, leavesRoot f.path = true) : succeeds H H5 t fs scheds = false := by
  obtain ⟨f, hf, hl⟩ := h
  obtain ⟨c, hc, hb⟩ := leavesRoot_has_bad_component f.path hl
  have hany : (entries t).any (fun f => f.path.any (fun c => !isNormalComp c)) = true := by
    rw [List.any_eq_true]
    refine ⟨f, hf, ?_⟩
    rw [List.any_eq_true]
    exact ⟨c, hc, by simp [hb]⟩
  unfold succeeds verify
  by_cases h1 : t.pieceLength ≥ 2 ^ 32
  · simp [h1]
  · by_cases h2 : t.pieceLength = 0
    · simp [h2]
    · simp [h1, h2, hany]

/-- the screening refuses before anything is read: the refusal does not depend on the file system -/
theorem refusal_ignores_fs (H : Bytes → δ) (H5 : Bytes → ε) (t : Torrent δ ε) (fs fs' : FS) (scheds : List (List Nat))
    (r : Refusal) (h : verify H H5 t fs scheds = .error r) : verify H H5 t fs' scheds = .error r := by
  unfold verify at h ⊢
  by_cases h1 : t.pieceLength ≥ 2 ^ 32
  · simp only [h1, if_true] at h ⊢; exact h
  · by_cases h2 : t.pieceLength = 0
    · simp only [h1, h2, if_true, if_false] at h ⊢; exact h
    · by_cases h3 : (entries t).any (fun f => f.path.any (fun c => !isNormalComp c)) = true
      · simp only [h1, h2, h3, if_true, if_false] at h ⊢; exact h
      · simp only [h1, h2, h3, if_false] at h; cases h

/-- paths that pass the screening stay inside: every file system lookup of an
accepted run is strictly below the root (depth = number of components) -/
theorem accepted_paths_inside (p : RelPath) (h : ∀ c ∈ p, isNormalComp c = true) :
    lexWalk (some 0) p = some p.length := by
  simpa using lexWalk_normal p h 0

/-! ## Non-vacuity: the witness that verified before the repair -/
example : leavesRoot ["..".toUTF8.toList, "outside".toUTF8.toList, "secret".toUTF8.toList] = true := by decide +kernel
example : leavesRoot ["a".toUTF8.toList, "..".toUTF8.toList, "..".toUTF8.toList, "x".toUTF8.toList] = true := by decide +kernel
example : leavesRoot ["/etc".toUTF8.toList] = true := by decide +kernel
example : leavesRoot ["a/../../x".toUTF8.toList] = true := by decide +kernel
example : leavesRoot ["a".toUTF8.toList, "b".toUTF8.toList] = false := by decide +kernel

end Imdlv.C13
