import Imdlv.Model.Walker
/-!
# C06 — create includes exactly the documented files, in the documented order

Glob matching `m` is arbitrary. `found` is the list of regular files the walk
enumerates, in whatever order the operating system returns directory entries;
theorems quantify over all such lists and their permutations.
-/
namespace Imdlv.C06
open Imdlv Imdlv.Walker Std

/-! ## ordering -/

/-- right-nested form of the comparison fold -/
def cmpList : List SortSpec → FileE → FileE → Ordering
  | [], _, _ => .eq
  | s :: t, a, b => (specCmp s a b).then (cmpList t a b)

theorem foldl_then (l : List SortSpec) (a b : FileE) (o : Ordering) :
    l.foldl (fun o s => o.then (specCmp s a b)) o = o.then (cmpList l a b) := by
  induction l generalizing o with
  | nil => cases o <;> rfl
  | cons s t ih =>
    simp only [List.foldl_cons, cmpList, ih]
    cases o <;> cases specCmp s a b <;> rfl

theorem compareSpecs_eq (specs : List SortSpec) (a b : FileE) :
    compareSpecs specs a b = cmpList (specs ++ [defaultSpec]) a b := by
  unfold compareSpecs; rw [foldl_then]; rfl

instance specCmp_trans (s : SortSpec) : TransCmp (specCmp s) := by
  obtain ⟨k, o⟩ := s
  cases k <;> cases o
  · exact inferInstanceAs (TransCmp (compareOn FileE.path))
  · have : specCmp ⟨.path, .descending⟩ = fun a b => compareOn FileE.path b a := by
      funext a b
      simp only [specCmp, compareOn]
      exact (OrientedCmp.eq_swap (cmp := compare) (a := b.path) (b := a.path)).symm
    rw [this]; exact TransCmp.opposite
  · exact inferInstanceAs (TransCmp (compareOn FileE.size))
  · have : specCmp ⟨.size, .descending⟩ = fun a b => compareOn FileE.size b a := by
      funext a b
      simp only [specCmp, compareOn]
      exact (OrientedCmp.eq_swap (cmp := compare) (a := b.size) (b := a.size)).symm
    rw [this]; exact TransCmp.opposite

instance cmpList_trans : (l : List SortSpec) → TransCmp (cmpList l)
  | [] => { eq_swap := by intros; rfl, isLE_trans := by intros; rfl }
  | s :: t => by
    have := cmpList_trans t
    have : cmpList (s :: t) = compareLex (specCmp s) (cmpList t) := by
      funext a b; rfl
    rw [this]; infer_instance

theorem le_trans (specs : List SortSpec) (a b c : FileE) (h1 : le specs a b = true) (h2 : le specs b c = true) :
    le specs a c = true := by
  simp only [le, compareSpecs_eq] at *
  exact TransCmp.isLE_trans h1 h2

theorem le_total (specs : List SortSpec) (a b : FileE) : (le specs a b || le specs b a) = true := by
  simp only [le, compareSpecs_eq, Bool.or_eq_true]
  have h := OrientedCmp.eq_swap (cmp := cmpList (specs ++ [defaultSpec])) (a := a) (b := b)
  cases hc : cmpList (specs ++ [defaultSpec]) a b <;> rw [hc] at h <;> simp [Ordering.swap] at h
  · left; rfl
  · left; rfl
  · right; rw [show cmpList (specs ++ [defaultSpec]) b a = .lt from by
      cases hd : cmpList (specs ++ [defaultSpec]) b a <;> rw [hd] at h <;> simp [Ordering.swap] at h <;> rfl]
    rfl

/-- the appended default makes equal-comparing entries have equal paths -/
theorem cmpList_eq_path (l : List SortSpec) (a b : FileE) (h : cmpList (l ++ [defaultSpec]) a b = .eq) :
    a.path = b.path := by
  induction l with
  | nil =>
    simp only [List.nil_append, cmpList, Ordering.then_eq_eq, and_true] at h
    simp only [specCmp, defaultSpec] at h
    exact LawfulEqOrd.eq_of_compare h
  | cons s t ih =>
    simp only [List.cons_append, cmpList, Ordering.then_eq_eq] at h
    exact ih h.2

theorem le_antisymm_path (specs : List SortSpec) (a b : FileE) (h1 : le specs a b = true) (h2 : le specs b a = true) :
    a.path = b.path := by
  simp only [le, compareSpecs_eq] at h1 h2
  exact cmpList_eq_path specs a b (OrientedCmp.isLE_antisymm h1 h2)

/-- **Sorted**: files appear sorted by the `--sort-by` keys in order, remaining ties by ascending path. -/
theorem listed_sorted {π : Type} (fl : Flags) (m : π → List Bytes → Bool) (pats : List (Pattern π))
    (specs : List SortSpec) (found : List FileE) :
    (listed fl m pats specs found).Pairwise (fun a b => le specs a b = true) :=
  List.pairwise_mergeSort (le_trans specs) (le_total specs) _

/-- **Exactly the surviving files**: the listed files are, with multiplicity, the
enumerated regular files that pass the glob and junk filters — nothing added, dropped or duplicated. -/
theorem listed_perm {π : Type} (fl : Flags) (m : π → List Bytes → Bool) (pats : List (Pattern π))
    (specs : List SortSpec) (found : List FileE) :
    (listed fl m pats specs found).Perm (found.filter (keep fl m pats)) :=
  List.mergeSort_perm _ _

theorem mem_listed_iff {π : Type} (fl : Flags) (m : π → List Bytes → Bool) (pats : List (Pattern π))
    (specs : List SortSpec) (found : List FileE) (e : FileE) :
    e ∈ listed fl m pats specs found ↔ e ∈ found ∧ patternFilter m pats e.path = true ∧
      (fl.includeJunk = true ∨ isJunk e.path = false) := by
  rw [(listed_perm fl m pats specs found).mem_iff, List.mem_filter]
  simp [keep]

theorem eq_of_nodup_paths : ∀ (l : List FileE), (l.map (·.path)).Nodup → ∀ a ∈ l, ∀ b ∈ l, a.path = b.path → a = b
  | [], _, a, ha, _, _, _ => by simp at ha
  | x :: t, hnd, a, ha, b, hb, hp => by
    simp only [List.map_cons, List.nodup_cons, List.mem_map, not_exists, not_and] at hnd
    simp only [List.mem_cons] at ha hb
    rcases ha with rfl | ha <;> rcases hb with rfl | hb
    · rfl
    · exact absurd hp.symm (hnd.1 b hb)
    · exact absurd hp (hnd.1 a ha)
    · exact eq_of_nodup_paths t hnd.2 a ha b hb hp

/-- **Independent of directory enumeration order**: any two enumerations of the
same files (one a permutation of the other, paths distinct) give the identical list. -/
theorem order_independent {π : Type} (fl : Flags) (m : π → List Bytes → Bool) (pats : List (Pattern π))
    (specs : List SortSpec) (found₁ found₂ : List FileE) (hperm : found₁.Perm found₂)
    (hnd : (found₁.map (·.path)).Nodup) :
    listed fl m pats specs found₁ = listed fl m pats specs found₂ := by
  apply List.Perm.eq_of_pairwise (le := fun a b => le specs a b = true)
  · intro a b ha hb h1 h2
    have hp := le_antisymm_path specs a b h1 h2
    have ha' : a ∈ found₁ := ((mem_listed_iff fl m pats specs found₁ a).mp ha).1
    have hb' : b ∈ found₁ := hperm.symm.subset ((mem_listed_iff fl m pats specs found₂ b).mp hb).1
    -- distinct paths: same path ⇒ same entry
    exact eq_of_nodup_paths found₁ hnd a ha' b hb' hp
  · exact listed_sorted fl m pats specs found₁
  · exact listed_sorted fl m pats specs found₂
  · exact (listed_perm fl m pats specs found₁).trans
      ((hperm.filter _).trans (listed_perm fl m pats specs found₂).symm)

/-- with no `--sort-by`, the order is ascending path, compared component-wise -/
theorem default_order (a b : FileE) : le [] a b = (compare a.path b.path).isLE := by
  simp [le, compareSpecs, specCmp, defaultSpec]

/-- component-wise: a shorter path that is a prefix comes first; otherwise the
first differing component decides, components compared as byte strings -/
theorem path_order_componentwise (x y : Bytes) (xs ys : List Bytes) :
    compare (x :: xs) (y :: ys) = (compare x y).then (compare xs ys) := by
  rw [List.compare_eq_compareLex, List.compareLex_cons_cons]

/-! ## glob precedence -/

/-- **Last matching glob decides.** -/
theorem last_match_decides {π : Type} (m : π → List Bytes → Bool) (before after : List (Pattern π)) (p : Pattern π)
    (path : List Bytes) (hm : m p.glob path = true) (hafter : ∀ q ∈ after, m q.glob path = false) :
    patternFilter m (before ++ p :: after) path = p.incl := by
  unfold patternFilter
  have : (before ++ p :: after).reverse = after.reverse ++ p :: before.reverse := by simp
  rw [this, List.find?_append]
  have hnone : after.reverse.find? (fun p => m p.glob path) = none := by
    rw [List.find?_eq_none]; intro q hq; simp [hafter q (by simpa using hq)]
  simp [hnone, hm]

/-- **Unmatched paths take the opposite polarity of the first glob.** -/
theorem unmatched_opposite_of_first {π : Type} (m : π → List Bytes → Bool) (p : Pattern π) (rest : List (Pattern π))
    (path : List Bytes) (hnone : ∀ q ∈ p :: rest, m q.glob path = false) :
    patternFilter m (p :: rest) path = !p.incl := by
  unfold patternFilter
  have : (p :: rest).reverse.find? (fun p => m p.glob path) = none := by
    rw [List.find?_eq_none]; intro q hq; simp [hnone q (List.mem_reverse.mp hq)]
  rw [this]; rfl

theorem no_globs_include_all {π : Type} (m : π → List Bytes → Bool) (path : List Bytes) :
    patternFilter m [] path = true := rfl

/-! ## hidden entries, symlinks, junk, root -/

/-- the junk list is the documented one -/
theorem junk_documented : Consts.junkNames = ["Thumbs.db".toUTF8.toList, "Desktop.ini".toUTF8.toList] := by
  decide +kernel

mutual
/-- **Hidden pruning**: without `--include-hidden` no listed path has a component,
below the walk's starting point, whose name starts with `.` -/
theorem walkNode_no_hidden (fl : Flags) (h : fl.includeHidden = false) (path : List Bytes) :
    (n : Node) → ∀ e ∈ walkNode fl path n, ∃ suffix, e.path = path ++ suffix ∧ ∀ c ∈ suffix, isHidden c = false
  | .file s => by
    intro e he; simp only [walkNode, List.mem_singleton] at he; subst he; exact ⟨[], by simp, by simp⟩
  | .dir es => by
    intro e he; simp only [walkNode] at he; exact walkEntries_no_hidden fl h path es e he
  | .linkFile s => by
    intro e he; simp only [walkNode] at he
    split at he
    · simp only [List.mem_singleton] at he; subst he; exact ⟨[], by simp, by simp⟩
    · simp at he
  | .linkDir es => by
    intro e he; simp only [walkNode] at he
    split at he
    · exact walkEntries_no_hidden fl h path es e he
    · simp at he
  | .other => by intro e he; simp [walkNode] at he
theorem walkEntries_no_hidden (fl : Flags) (h : fl.includeHidden = false) (pre : List Bytes) :
    (es : Entries) → ∀ e ∈ walkEntries fl pre es, ∃ suffix, e.path = pre ++ suffix ∧ ∀ c ∈ suffix, isHidden c = false
  | .nil => by intro e he; simp [walkEntries] at he
  | .cons name n t => by
    intro e he
    simp only [walkEntries, List.mem_append] at he
    rcases he with he | he
    · by_cases hh : isHidden name = true
      · simp [hh, h] at he
      · simp only [hh, Bool.false_and, Bool.false_eq_true, if_false] at he
        obtain ⟨suffix, hs, hall⟩ := walkNode_no_hidden fl h (pre ++ [name]) n e he
        refine ⟨name :: suffix, by simp [hs], ?_⟩
        intro c hc
        simp only [List.mem_cons] at hc
        rcases hc with rfl | hc
        · simpa using hh
        · exact hall c hc
    · exact walkEntries_no_hidden fl h pre t e he
end

/-- **Symlinks are skipped** unless followed: a symlink contributes nothing -/
theorem symlinks_skipped (fl : Flags) (h : fl.follow = false) (path : List Bytes) (s : Nat) (es : Entries) :
    walkNode fl path (.linkFile s) = [] ∧ walkNode fl path (.linkDir es) = [] := by
  simp [walkNode, h]

/-- **Junk** is skipped by final component unless `--include-junk` -/
theorem junk_skipped {π : Type} (fl : Flags) (m : π → List Bytes → Bool) (pats : List (Pattern π))
    (specs : List SortSpec) (found : List FileE) (e : FileE) (hj : fl.includeJunk = false)
    (he : e ∈ listed fl m pats specs found) : isJunk e.path = false := by
  have := (mem_listed_iff fl m pats specs found e).mp he
  rcases this.2.2 with h | h
  · rw [hj] at h; cases h
  · exact h

/-- **A symlink given as the root is refused unless symlinks are followed.** -/
theorem symlink_root_refused {π : Type} (fl : Flags) (m : π → List Bytes → Bool) (pats : List (Pattern π))
    (specs : List SortSpec) (root : Node) (hlink : (∃ s, root = .linkFile s) ∨ (∃ es, root = .linkDir es)) :
    (files fl m pats specs root = .error .symlinkRoot) ↔ fl.follow = false := by
  rcases hlink with ⟨s, rfl⟩ | ⟨es, rfl⟩ <;> cases hf : fl.follow <;> simp [files, hf]

/-! ## Non-vacuity -/
-- size ascending, ties by path descending
example : compareSpecs [⟨.size, .ascending⟩, ⟨.path, .descending⟩] ⟨[[99]], 3⟩ ⟨[[97]], 3⟩ = .lt := by decide +kernel
example : compareSpecs [⟨.size, .ascending⟩, ⟨.path, .descending⟩] ⟨[[98]], 1⟩ ⟨[[99]], 3⟩ = .lt := by decide +kernel
-- component-wise vs plain string order: "a/b" before "a.b" component-wise ("a" is a proper prefix component),
-- although '.' (46) < '/' (47) in the joined strings
example : compareSpecs [] ⟨[[97], [98]], 0⟩ ⟨[[97, 46, 98]], 0⟩ = .lt := by decide +kernel
example : patternFilter (fun (g : Nat) (p : List Bytes) => g == p.length) [⟨1, true⟩, ⟨2, false⟩, ⟨2, true⟩] [[1], [2]] = true := by
  decide +kernel

end Imdlv.C06
