import Imdlv.Model.Summary
import Imdlv.Props.C04
import Imdlv.Lemmas.LoadRoundTrip
/-!
# C07 — `torrent show` reports what the file says

The summary is a function of the typed metainfo `m` (what an independent
bencode reader extracts — C04/C05's codec lemmas), the input length and the
stored info span. The tab-delimited rendering is shown to be losslessly
readable back for tab- and newline-free values.
-/
namespace Imdlv.C07
open Imdlv Imdlv.Metainfo Imdlv.Load Imdlv.Summary

/-- **content size = sum of the listed file lengths** (over unbounded naturals) -/
theorem content_size_is_sum (m : MetainfoM) (n : Nat) (s : Bytes) :
    (summary m n s).contentSize = (match m.info.mode with
      | .single len _ => len
      | .multiple fs => (fs.map (·.length)).sum) := by
  cases h : m.info.mode <;> simp [summary, lengthsOf, h]

/-- **piece count = length of the piece string / 20** -/
theorem piece_count (m : MetainfoM) (n : Nat) (s : Bytes) : (summary m n s).pieceCount = m.info.pieces.length / 20 := rfl

/-- **file count = number of listed files** (1 for a single-file torrent) -/
theorem file_count (m : MetainfoM) (n : Nat) (s : Bytes) :
    (summary m n s).fileCount = (match m.info.mode with | .single _ _ => 1 | .multiple fs => fs.length) := rfl

/-- the file list has one entry per listed file -/
theorem files_length (m : MetainfoM) (n : Nat) (s : Bytes) : (summary m n s).files.length = (summary m n s).fileCount := by
  cases h : m.info.mode <;> simp [summary, h]

/-- **torrent size = byte length of the input** -/
theorem torrent_size (m : MetainfoM) (n : Nat) (s : Bytes) : (summary m n s).torrentSize = n := rfl

/-- the scalar fields are exactly the typed fields (absent stays absent) -/
theorem scalar_fields (m : MetainfoM) (n : Nat) (s : Bytes) :
    let r := summary m n s
    r.name = m.info.name ∧ r.comment = m.comment ∧ r.creationDate = m.creationDate ∧ r.createdBy = m.createdBy ∧
    r.source = m.info.source ∧ r.tracker = m.announce ∧ r.updateUrl = m.info.updateUrl ∧
    r.pieceSize = m.info.pieceLength ∧ r.announceList = m.announceList.getD [] ∧
    (r.priv = true ↔ m.info.priv = some true) := by
  refine ⟨rfl, rfl, rfl, rfl, rfl, rfl, rfl, rfl, rfl, ?_⟩
  cases h : m.info.priv with
  | none => simp [summary, h]
  | some b => cases b <;> simp [summary, h]

/-- **the reported infohash is the hash of the stored info span** (with C04) -/
theorem infohash_of_span (urlOk : Bytes → Bool) (b : Bytes) (m : MetainfoM) (span : Bytes)
    (h : loadTorrent urlOk b = .ok m span) :
    Bencode.findSpan Infohash.infoKey b = some span ∧ (summary m b.length span).infoHashOf = span := by
  refine ⟨?_, rfl⟩
  unfold loadTorrent at h
  split at h
  · cases h
  · cases h
  · split at h
    · cases h
    · split at h
      · cases h
      · split at h
        · rename_i sp hih
          simp only [Loaded.ok.injEq] at h
          obtain ⟨_, rfl⟩ := h
          obtain ⟨s, hs, hh, _⟩ := C04.infohash_is_span (fun s => s) 2048 b sp hih
          rw [hs, hh]
        all_goals cases h

/- Path versus standard input: in the model the report is a function of the bytes alone by
construction, so there is nothing to prove here; that the implementation reads the same bytes
from both sources is established by the correspondence check (every case is run both ways). -/

/-! ## what `create` wrote is what `show` loads -/

/-- **Loading what was written**: for every typed metainfo value `m` whose strings are text where
serde demands text, whose digests, piece string and integers are in range, whose update URL the
URL parser accepts and whose nodes the host parser accepts (`MetainfoM.Typed`), whose paths are
within the component limit and whose lengths sum within `u64`: the loader accepts `m`'s
serialisation, returns exactly `m` — so every reported field is the field that was written — and
the span it hashes is the encoding of `m`'s info dictionary. Composes C05 (`createMetainfo` is
such an `m`) with this property. -/
theorem load_written (urlOk : Bytes → Bool) (m : MetainfoM) (h : m.Typed urlOk)
    (hpaths : pathsOk m.info.mode = true) (s : Nat) (hsize : contentSize? m.info.mode = some s) :
    loadTorrent urlOk m.serialize = .ok m (Bencode.encode m.info.toBVal) :=
  Metainfo.load_serialize urlOk m h hpaths s hsize

/-- … in particular the typed reader alone (what `verify` and `link` start from), with anything after the file's value -/
theorem read_written (urlOk : Bytes → Bool) (m : MetainfoM) (h : m.Typed urlOk) (r : Bytes) :
    readMetainfo urlOk (m.serialize ++ r) = some (some m) :=
  Metainfo.readMetainfo_serialize urlOk m h r

/-! ## tab-delimited form is readable back -/

theorem splitOn_no_sep (sep : UInt8) (s : Bytes) (h : ∀ x ∈ s, x ≠ sep) : splitOn sep s = [s] := by
  induction s with
  | nil => rfl
  | cons c t ih =>
    have := ih (fun x hx => h x (by simp [hx]))
    unfold splitOn at this ⊢
    simp only [List.foldr_cons, this, h c (by simp), if_false]

theorem splitOn_append (sep : UInt8) (a rest : Bytes) (h : ∀ x ∈ a, x ≠ sep) :
    splitOn sep (a ++ sep :: rest) = a :: splitOn sep rest := by
  induction a with
  | nil => simp [splitOn]
  | cons c t ih =>
    have := ih (fun x hx => h x (by simp [hx]))
    unfold splitOn at this ⊢
    simp only [List.cons_append, List.foldr_cons, this, h c (by simp), if_false]

theorem splitOn_joinTab : ∀ (cells : List Bytes), cells ≠ [] → (∀ c ∈ cells, ∀ x ∈ c, x ≠ 9) →
    splitOn 9 (joinTab cells) = cells
  | [], h, _ => absurd rfl h
  | [c], _, h => by simp [joinTab, splitOn_no_sep 9 c (h c (by simp))]
  | c :: c2 :: t, _, h => by
    simp only [joinTab, List.append_assoc, List.singleton_append]
    rw [splitOn_append 9 c _ (h c (by simp)), splitOn_joinTab (c2 :: t) (by simp) (fun x hx => h x (by simp [hx]))]

def CleanRow (r : Bytes × List Bytes) : Prop :=
  r.2 ≠ [] ∧ (∀ x ∈ r.1, x ≠ 9 ∧ x ≠ 10) ∧ (∀ c ∈ r.2, ∀ x ∈ c, x ≠ 9 ∧ x ≠ 10)

theorem joinTab_no_nl : ∀ (cells : List Bytes), (∀ c ∈ cells, ∀ x ∈ c, x ≠ 10) → ∀ x ∈ joinTab cells, x ≠ 10
  | [], _, x, hx => by simp [joinTab] at hx
  | [c], h, x, hx => by simp only [joinTab] at hx; exact h c (by simp) x hx
  | c :: c2 :: t, h, x, hx => by
    simp only [joinTab, List.append_assoc, List.mem_append, List.mem_singleton] at hx
    rcases hx with hx | rfl | hx
    · exact h c (by simp) x hx
    · decide
    · exact joinTab_no_nl (c2 :: t) (fun y hy => h y (by simp [hy])) x hx

/-- **The tab-delimited rendering carries the same values field for field**: for rows whose
values contain no tab or newline, an independent reader recovers exactly the rows. -/
theorem tab_roundtrip (rows : List (Bytes × List Bytes)) (h : ∀ r ∈ rows, CleanRow r) :
    parseTab (renderTab rows) = rows := by
  unfold parseTab renderTab
  have key : ∀ (rows : List (Bytes × List Bytes)), (∀ r ∈ rows, CleanRow r) →
      splitOn 10 (rows.map fun r => r.1 ++ [9] ++ joinTab r.2 ++ [10]).flatten
        = (rows.map fun r => r.1 ++ [9] ++ joinTab r.2) ++ [[]] := by
    intro rows
    induction rows with
    | nil => intro _; rfl
    | cons r t ih =>
      intro hc
      obtain ⟨_, hname, hcells⟩ := hc r (by simp)
      have hline : ∀ x ∈ r.1 ++ [9] ++ joinTab r.2, x ≠ 10 := by
        intro x hx
        simp only [List.append_assoc, List.mem_append, List.mem_singleton] at hx
        rcases hx with hx | rfl | hx
        · exact (hname x hx).2
        · decide
        · exact joinTab_no_nl r.2 (fun c hc' y hy => (hcells c hc' y hy).2) x hx
      simp only [List.map_cons, List.flatten_cons]
      have : r.1 ++ [9] ++ joinTab r.2 ++ [10] ++ (t.map fun r => r.1 ++ [9] ++ joinTab r.2 ++ [10]).flatten
          = (r.1 ++ [9] ++ joinTab r.2) ++ 10 :: (t.map fun r => r.1 ++ [9] ++ joinTab r.2 ++ [10]).flatten := by
        simp [List.append_assoc]
      rw [this, splitOn_append 10 _ _ hline, ih (fun r' hr' => hc r' (by simp [hr']))]
      simp
  rw [key rows h]
  simp only [List.dropLast_concat, List.map_map]
  conv => rhs; rw [← List.map_id rows]
  apply List.map_congr_left
  intro r hr
  obtain ⟨hne, hname, hcells⟩ := h r hr
  simp only [Function.comp, id]
  have : r.1 ++ [9] ++ joinTab r.2 = r.1 ++ 9 :: joinTab r.2 := by simp
  rw [this, splitOn_append 9 r.1 _ (fun x hx => (hname x hx).1),
    splitOn_joinTab r.2 hne (fun c hc x hx => (hcells c hc x hx).1)]

/-! ## Non-vacuity -/
example : parseTab (renderTab [([110], [[97], [98]]), ([115], [[49, 50]])]) = [([110], [[97], [98]]), ([115], [[49, 50]])] := by
  decide +kernel
example : pathPush (pathPush [110] [97]) [98] = [110, 47, 97, 47, 98] := by decide +kernel

end Imdlv.C07
