import Imdlv.Model.Streams
/-!
# C18 — payload on stdout, chatter on stderr, silence under --quiet, honest exit codes

For every configuration (`NO_COLOR`, `TERM`, tty-ness of both descriptors,
`--color`, `--terminal`, `--quiet`) and every list of writes a command performs.
-/
namespace Imdlv.C18
open Imdlv.Streams

/-- **`--quiet` leaves standard error empty**, whatever the command writes there -/
theorem quiet_silences_err (c : Config) (ws : List Write) (hq : c.quiet = true) : emitted c .err ws = [] := by
  simp [emitted, errStream, hq]

/-- `--quiet` never touches standard output -/
theorem quiet_keeps_stdout (c : Config) (ws : List Write) :
    emitted { c with quiet := true } .out ws = emitted { c with quiet := false } .out ws := by
  have : outStream { c with quiet := true } = outStream { c with quiet := false } := rfl
  simp only [emitted, this]

/-- **Standard output carries exactly the writes addressed to it, in order** — chatter
and diagnostics written to the error stream never reach it -/
theorem stdout_only_out_writes (c : Config) (ws : List Write) (h : ∀ w ∈ ws, w.target = .err) :
    emitted c .out ws = [] := by
  have : ws.filter (·.target == Target.out) = [] := by
    rw [List.filter_eq_nil_iff]
    intro w hw
    simp [h w hw]
  simp [emitted, this]

/-- unstyled configuration: stdout is the plain concatenation of the payload texts -/
theorem stdout_plain (c : Config) (ws : List Write) (hs : (outStream c).style = false) :
    emitted c .out ws = ((ws.filter (·.target == .out)).map (·.text)).flatten := by
  have hact : (outStream c).active = true := by
    simp only [outStream, applyColor]
    cases c.color <;> cases c.terminal <;> rfl
  simp only [emitted, hact, if_true]
  congr 1
  apply List.map_congr_left
  intro w _
  simp [paint, hs]

/-- the style decision for standard output -/
theorem out_style_iff (c : Config) :
    (outStream c).style = true ↔
      c.color = .always ∨ (c.color = .auto ∧ c.noColor = false ∧ c.termDumb = false ∧ c.ttyOut = true) := by
  cases hc : c.color <;> cases hn : c.noColor <;> cases hd : c.termDumb <;> cases ht : c.ttyOut <;>
    cases hT : c.terminal <;> simp [outStream, applyColor, envStyle, hc, hn, hd, ht, hT]

/-- **No escape sequences on a non-terminal standard output unless `--color always`**,
for escape-free data — `--terminal` does not change that -/
theorem no_escape_on_pipe (c : Config) (ws : List Write) (htty : c.ttyOut = false) (hcol : c.color ≠ .always)
    (hdata : ∀ w ∈ ws, esc ∉ w.text) : esc ∉ emitted c .out ws := by
  have hs : (outStream c).style = false := by
    cases h : (outStream c).style with
    | false => rfl
    | true =>
      rcases (out_style_iff c).mp h with h1 | ⟨_, _, _, h4⟩
      · exact absurd h1 hcol
      · rw [htty] at h4; cases h4
  rw [stdout_plain c ws hs]
  intro hmem
  simp only [List.mem_flatten, List.mem_map, List.mem_filter] at hmem
  obtain ⟨l, ⟨w, ⟨hw, _⟩, rfl⟩, hin⟩ := hmem
  exact hdata w hw hin

/-- **Exit status**: 0 on success (and help/version), 1 on every reported failure including usage errors -/
theorem exit_code_map (o : Outcome) :
    (exitCode o = 0 ↔ (o = .ok ∨ o = .helpOrVersion)) ∧ (exitCode o = 1 ↔ (o = .failed ∨ o = .usage)) := by
  cases o <;> simp [exitCode]

/-- the finite flag space, checked completely: with `--quiet` the error stream is inactive,
without it active; standard output is always active -/
theorem activity_table : ∀ (nc td to te tm q : Bool) (col : UseColor),
    let c : Config := ⟨nc, td, to, te, col, tm, q⟩
    (outStream c).active = true ∧ (errStream c).active = !q := by
  intro nc td to te tm q col
  cases nc <;> cases td <;> cases to <;> cases te <;> cases tm <;> cases q <;> cases col <;> decide

/-- **`--quiet` also silences what is drawn past the streams** (spinners, progress bars): under `--quiet` nothing of the
kind exists, whatever the terminal, colour and environment settings -/
theorem quiet_no_progress (c : Config) (hq : c.quiet = true) : progressDrawn c = false := by
  simp [progressDrawn, hq]

/-- without `--quiet` they are drawn exactly on a styled terminal (so never into a pipe unless `--terminal` and colour
are forced) -/
theorem progress_iff (c : Config) (hq : c.quiet = false) :
    progressDrawn c = ((errStream c).style && (errStream c).term) := by
  have : ({ c with quiet := false } : Config) = c := by cases c; simp_all
  simp [progressDrawn, hq, this]

/-! ## Non-vacuity -/
example : progressDrawn ⟨false, false, false, true, .auto, false, false⟩ = true := by decide
example : progressDrawn ⟨false, false, false, true, .auto, false, true⟩ = false := by decide
example : emitted ⟨false, false, false, false, .auto, true, false⟩ .out
    [⟨.err, .chatter, [1], true⟩, ⟨.out, .payload, [2, 3], true⟩, ⟨.err, .diagnostic, [4], true⟩] = [2, 3] := by decide
example : emitted ⟨false, false, false, false, .always, false, false⟩ .out [⟨.out, .payload, [2], true⟩]
    = [27, 91, 49, 109, 2, 27, 91, 48, 109] := by decide

end Imdlv.C18
