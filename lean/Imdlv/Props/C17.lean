import Imdlv.Lemmas.HostIpv4
import Imdlv.Lemmas.HostIpv6
import Imdlv.Lemmas.HostDomain
import Imdlv.Lemmas.HostOk
import Imdlv.Model.HostPort
/-!
# C17 — host:port values survive every representation

Theorems are parametric in the host parser/printers (`url::Host`), with the
facts they need as explicit hypotheses; the last section discharges the
colon/bracket facts for the concrete printers of the model.
-/
namespace Imdlv.C17
open Imdlv.HostPort

theorem splitLastColon_snoc (h ds : List Char) (hd : ds.contains ':' = false) :
    splitLastColon (h ++ ':' :: ds) = some (h, ds) := by
  have hds : splitLastColon ds = none := by
    induction ds with
    | nil => rfl
    | cons c t ih =>
      simp only [List.contains_cons, Bool.or_eq_false_iff, beq_eq_false_iff_ne, ne_eq] at hd
      have hc : c ≠ ':' := fun e => hd.1 e.symm
      simp [splitLastColon, ih hd.2, hc]
  induction h with
  | nil => simp [splitLastColon, hds]
  | cons c t ih => simp [splitLastColon, ih]

theorem digitCh_props (k : Nat) (hk : k < 10) :
    isDigitCh (Char.ofNat (48 + k)) = true ∧ (Char.ofNat (48 + k)).toNat - 48 = k ∧ Char.ofNat (48 + k) ≠ ':' := by
  have h : k = 0 ∨ k = 1 ∨ k = 2 ∨ k = 3 ∨ k = 4 ∨ k = 5 ∨ k = 6 ∨ k = 7 ∨ k = 8 ∨ k = 9 := by omega
  rcases h with h | h | h | h | h | h | h | h | h | h <;> subst h <;> decide

theorem natChars_props (n : Nat) :
    (natChars n).all isDigitCh = true ∧ natChars n ≠ [] ∧ (natChars n).contains ':' = false ∧
      digitsVal (natChars n) = n := by
  induction n using natChars.induct with
  | case1 n h =>
    unfold natChars; simp only [h, if_true]
    obtain ⟨h1, h2, h3⟩ := digitCh_props n h
    refine ⟨by simp [h1], by simp, ?_, by simp [digitsVal, h2]⟩
    simp only [List.contains_cons, List.contains_nil, Bool.or_false, beq_eq_false_iff_ne, ne_eq]
    exact fun e => h3 e.symm
  | case2 n h ih =>
    unfold natChars; simp only [h, if_false]
    obtain ⟨i1, i2, i3, i4⟩ := ih
    obtain ⟨h1, h2, h3⟩ := digitCh_props (n % 10) (Nat.mod_lt _ (by omega))
    refine ⟨by simp [List.all_append, i1, h1], by simp, ?_, ?_⟩
    · rw [List.contains_append, i3]
      simp only [List.contains_cons, List.contains_nil, Bool.or_false, Bool.false_or, beq_eq_false_iff_ne, ne_eq]
      exact fun e => h3 e.symm
    · simp only [digitsVal, List.foldl_append, List.foldl_cons, List.foldl_nil] at i4 ⊢
      rw [i4, h2]; omega

section generic
variable (hostParse : List Char → Option Host) (hostShow pairShow : Host → List Char)

/-- **Printed form parses back to the identical value.** -/
theorem display_parse (h : Host) (p : Nat) (hp : p < 65536)
    (hrt : hostParse (hostShow h) = some h) (hnl : (hostShow h).contains '\n' = false) :
    parse hostParse (display hostShow (h, p)) = .ok (h, p) := by
  obtain ⟨d1, d2, d3, d4⟩ := natChars_props p
  unfold parse display
  simp only [List.append_assoc, List.singleton_append]
  rw [splitLastColon_snoc _ _ d3]
  have he : (natChars p).isEmpty = false := by
    cases hh : natChars p with
    | nil => exact absurd hh d2
    | cons _ _ => rfl
  have hnl' : ¬ '\n' ∈ hostShow h := by simpa using hnl
  simp [he, d1, hnl', hrt, d4, hp]

/-- parsing, printing and parsing again is stable: the normalised form is a fixed point -/
theorem parse_display_stable (s : List Char) (h : Host) (p : Nat)
    (hok : parse hostParse s = .ok (h, p))
    (hrt : hostParse (hostShow h) = some h) (hnl : (hostShow h).contains '\n' = false) :
    parse hostParse (display hostShow (h, p)) = .ok (h, p) := by
  have hp : p < 65536 := by
    unfold parse at hok
    split at hok
    · cases hok
    · split at hok
      · cases hok
      · split at hok
        · cases hok
        · split at hok
          · simp only [Except.ok.injEq, Prod.mk.injEq] at hok
            rw [← hok.2]; assumption
          · cases hok
  exact display_parse hostParse hostShow h p hp hrt hnl

/-- **Re-reading the stored pair yields the identical value**, given that the
pair's host text (bracketed again when it contains a colon) parses back. -/
theorem bencode_roundtrip (h : Host) (p : Nat)
    (hrt : hostParse (if (pairShow h).contains ':' then ['['] ++ pairShow h ++ [']'] else pairShow h) = some h) :
    ofPair hostParse (toPair pairShow (h, p)) = some (h, p) := by
  show Option.map (fun x => (x, p)) (hostParse (if (pairShow h).contains ':' then ['['] ++ pairShow h ++ [']'] else pairShow h)) = some (h, p)
  rw [hrt]; rfl

/-- the stored pair is `[host text, port]` with the port unchanged -/
theorem pair_shape (h : Host) (p : Nat) : toPair pairShow (h, p) = (pairShow h, p) := rfl

/-! ### rejections -/

theorem rejects_no_colon (s : List Char) (h : s.contains ':' = false) :
    parse hostParse s = .error .portMissing := by
  have : splitLastColon s = none := by
    induction s with
    | nil => rfl
    | cons c t ih =>
      simp only [List.contains_cons, Bool.or_eq_false_iff, beq_eq_false_iff_ne, ne_eq] at h
      have hc : c ≠ ':' := fun e => h.1 e.symm
      simp [splitLastColon, ih h.2, hc]
  simp [parse, this]

theorem rejects_empty_port (hs : List Char) : parse hostParse (hs ++ [':']) = .error .portMissing := by
  unfold parse
  rw [splitLastColon_snoc hs [] rfl]
  simp

theorem rejects_nondigit_port (hs ds : List Char) (hc : ds.contains ':' = false) (hd : ds.all isDigitCh = false) :
    parse hostParse (hs ++ ':' :: ds) = .error .portMissing := by
  unfold parse
  rw [splitLastColon_snoc hs ds hc]
  simp [hd]

/-- ports above 65535 are rejected -/
theorem rejects_large_port (hs : List Char) (n : Nat) (hn : 65536 ≤ n) :
    ∃ e, parse hostParse (hs ++ ':' :: natChars n) = .error e := by
  obtain ⟨d1, d2, d3, d4⟩ := natChars_props n
  unfold parse
  rw [splitLastColon_snoc hs _ d3]
  have he : (natChars n).isEmpty = false := by
    cases hh : natChars n with
    | nil => exact absurd hh d2
    | cons _ _ => rfl
  simp only [he, d1, Bool.false_or, Bool.not_true]
  split
  · exact ⟨_, rfl⟩
  · cases hostParse hs with
    | none => exact ⟨_, rfl⟩
    | some host =>
      have : ¬ digitsVal (natChars n) < 65536 := by rw [d4]; omega
      simp only [this, if_false]; exact ⟨_, rfl⟩

/-- a host the host parser rejects (empty, forbidden characters, unbracketed IPv6) is rejected -/
theorem rejects_bad_host (hs ds : List Char) (hc : ds.contains ':' = false) (hbad : hostParse hs = none) :
    ∃ e, parse hostParse (hs ++ ':' :: ds) = .error e := by
  unfold parse
  rw [splitLastColon_snoc hs ds hc]
  simp only [hbad]
  split
  · exact ⟨_, rfl⟩
  · exact ⟨_, rfl⟩

end generic

/-! ## facts about the concrete host parser of the model -/

/-- empty host is rejected -/
theorem concrete_rejects_empty : hostParseOpt [] = none := by decide

/-- an unbracketed host containing a colon (IPv6 without brackets) is rejected -/
theorem concrete_rejects_unbracketed_colon (s : List Char) (h0 : s.head? ≠ some '[')
    (hc : s.contains ':' = true) (hascii : s.any (fun c => c == '%' || c.toNat ≥ 128) = false) :
    hostParseOpt s = none := by
  unfold hostParseOpt hostParseC
  have hne : s.isEmpty = false := by cases s <;> simp_all
  have hforb : s.any forbiddenHostCh = true := by
    rw [List.any_eq_true]
    refine ⟨':', ?_, by decide⟩
    simpa using hc
  simp [h0, hne, hascii, hforb]

/-- the IPv6 text printed for `HOST:PORT` is bracketed; domains and IPv4 print without brackets -/
theorem concrete_show_shapes (segs : List Nat) :
    (hostShowUrl (.ipv6 segs)).head? = some '[' ∧ (hostShowUrl (.ipv6 segs)).getLast? = some ']' := by
  refine ⟨by simp [hostShowUrl], ?_⟩
  simp only [hostShowUrl]
  rw [List.getLast?_append]
  simp

/-! ## IPv4 hosts, end to end through the model's concrete parser and printers -/

/-- **Every IPv4 address and port survive `HOST:PORT`**: printed as dotted decimal, parsed back by
the WHATWG host parser of the model (which also knows hexadecimal, octal and short forms) to the
identical value -/
theorem ipv4_display_parse (n p : Nat) (hn : n < 2 ^ 32) (hp : p < 65536) :
    parse hostParseOpt (display hostShowUrl (.ipv4 n, p)) = .ok (.ipv4 n, p) :=
  display_parse hostParseOpt hostShowUrl (.ipv4 n) p hp (hostParseC_showIpv4 n hn) (showIpv4_clean n).1

/-- … and the stored `[host, port]` pair -/
theorem ipv4_bencode_roundtrip (n p : Nat) (hn : n < 2 ^ 32) :
    ofPair hostParseOpt (toPair hostShowPair (.ipv4 n, p)) = some (.ipv4 n, p) := by
  apply bencode_roundtrip
  have : (hostShowPair (.ipv4 n)).contains ':' = false := (showIpv4_clean n).2
  rw [this]
  exact hostParseC_showIpv4 n hn

/-! ## IPv6 hosts, end to end: any eight 16-bit groups, both printers -/

/-- **Every IPv6 address and port survive `HOST:PORT`**: url's compressed lower-hex text in brackets
parses back to the identical eight groups — the elided run is zeros only, the printed `::` is the
only double colon, and every hex group reads back as its value -/
theorem ipv6_display_parse (segs : List Nat) (p : Nat) (hl : segs.length = 8) (hs : ∀ x ∈ segs, x < 65536)
    (hp : p < 65536) :
    parse hostParseOpt (display hostShowUrl (.ipv6 segs, p)) = .ok (.ipv6 segs, p) := by
  apply display_parse hostParseOpt hostShowUrl (.ipv6 segs) p hp (hostParseC_showIpv6Url segs hl hs)
  show (['['] ++ showIpv6Plain segs ++ [']']).contains '\n' = false
  have := showIpv6Plain_clean segs hs
  cases h : (['['] ++ showIpv6Plain segs ++ [']']).contains '\n' with
  | false => rfl
  | true =>
    have hm := List.contains_iff_mem.mp h
    simp only [List.mem_append, List.mem_singleton] at hm
    rcases hm with (hm | hm) | hm
    · cases hm
    · rw [List.contains_iff_mem.mpr hm] at this; cases this
    · cases hm

/-- … and the stored `[host, port]` pair: std's text (with the dotted tail of IPv4-mapped
addresses) always contains a colon, so the reader brackets it again, and it parses back -/
theorem ipv6_bencode_roundtrip (segs : List Nat) (p : Nat) (hl : segs.length = 8) (hs : ∀ x ∈ segs, x < 65536) :
    ofPair hostParseOpt (toPair hostShowPair (.ipv6 segs, p)) = some (.ipv6 segs, p) := by
  apply bencode_roundtrip
  obtain ⟨h1, h2⟩ := hostParseC_showIpv6Std segs hl hs
  show hostParseOpt (if (showIpv6Std segs).contains ':' then ['['] ++ showIpv6Std segs ++ [']'] else showIpv6Std segs) = _
  rw [h1]
  exact h2

/-! ## Domains, end to end -/

/-- the host parser returns only well-formed domains (lower-case letters, digits, `-`, `.`;
no `xn--` label; not ending in a number) … -/
theorem parsed_domain_ok (s d : List Char) (h : hostParseOpt s = some (.domain d)) : DomainOk d := by
  unfold hostParseOpt at h
  split at h
  · rename_i hh heq
    injection h with h
    subst h
    exact hostParseC_domain_ok s d heq
  · cases h

/-- **… and every such domain with any port survives `HOST:PORT` and the stored pair** -/
theorem domain_display_parse (d : List Char) (p : Nat) (hd : DomainOk d) (hp : p < 65536) :
    parse hostParseOpt (display hostShowUrl (.domain d, p)) = .ok (.domain d, p) := by
  apply display_parse hostParseOpt hostShowUrl (.domain d) p hp
  · show hostParseOpt d = _
    unfold hostParseOpt
    rw [hostParseC_domain_fixed d hd]
  · exact (domainOk_clean d hd).1

theorem domain_bencode_roundtrip (d : List Char) (p : Nat) (hd : DomainOk d) :
    ofPair hostParseOpt (toPair hostShowPair (.domain d, p)) = some (.domain d, p) := by
  apply bencode_roundtrip
  show hostParseOpt (if d.contains ':' then ['['] ++ d ++ [']'] else d) = _
  rw [(domainOk_clean d hd).2]
  unfold hostParseOpt
  simp only [Bool.false_eq_true, if_false]
  rw [hostParseC_domain_fixed d hd]

/-- **C17 for the whole modelled host language, no hypothesis about the host parser left**: every
well-formed host of any kind with any port survives both round trips -/
theorem concrete_round_trips (h : Host) (p : Nat) (hh : HostOk h) (hp : p < 65536) :
    parse hostParseOpt (display hostShowUrl (h, p)) = .ok (h, p) ∧
      ofPair hostParseOpt (toPair hostShowPair (h, p)) = some (h, p) := by
  cases h with
  | domain d => exact ⟨domain_display_parse d p hh hp, domain_bencode_roundtrip d p hh⟩
  | ipv4 n => exact ⟨ipv4_display_parse n p hh hp, ipv4_bencode_roundtrip n p hh⟩
  | ipv6 segs => exact ⟨ipv6_display_parse segs p hh.1 hh.2 hp, ipv6_bencode_roundtrip segs p hh.1 hh.2⟩

/-- **Whatever text `HOST:PORT` parsing accepts, its value survives both representations**: the
parser returns only well-formed hosts (`hostParseOpt_ok`), so no hypothesis about the value remains —
print it and parse the print, or store the pair and read it back: the identical value -/
theorem accepted_text_round_trips (s : List Char) (h : Host) (p : Nat)
    (hok : parse hostParseOpt s = .ok (h, p)) :
    parse hostParseOpt (display hostShowUrl (h, p)) = .ok (h, p) ∧
      ofPair hostParseOpt (toPair hostShowPair (h, p)) = some (h, p) := by
  have hh : hostParseOpt (match splitLastColon s with | some (a, _) => a | none => []) = some h ∧ p < 65536 := by
    unfold parse at hok
    split at hok
    · cases hok
    · rename_i a b heq
      split at hok
      · cases hok
      · split at hok
        · cases hok
        · rename_i host hhost
          split at hok
          · simp only [Except.ok.injEq, Prod.mk.injEq] at hok
            refine ⟨?_, by rw [← hok.2]; assumption⟩
            rw [← hok.1, heq]; exact hhost
          · cases hok
  exact concrete_round_trips h p (hostParseOpt_ok _ h hh.1) hh.2

/-- the printed form of an accepted text is a fixed point of parse-then-print -/
theorem normal_form_fixed (s : List Char) (h : Host) (p : Nat) (hok : parse hostParseOpt s = .ok (h, p)) :
    (parse hostParseOpt (display hostShowUrl (h, p))).map (display hostShowUrl) =
      .ok (display hostShowUrl (h, p)) := by
  rw [(accepted_text_round_trips s h p hok).1]; rfl

/-! ## Non-vacuity: concrete instances through the model's own host parser -/
example : parse hostParseOpt "imdl.com:12".toList = .ok (.domain "imdl.com".toList, 12) := by decide +kernel
example : parse hostParseOpt "[2001:db8::1]:65535".toList = .ok (.ipv6 [0x2001, 0xdb8, 0, 0, 0, 0, 0, 1], 65535) := by
  decide +kernel
example : display hostShowUrl (.ipv6 [0x2001, 0xdb8, 0, 0, 0, 0, 0, 1], 80) = "[2001:db8::1]:80".toList := by decide +kernel
example : parse hostParseOpt "0x7f.1:1".toList = .ok (.ipv4 0x7f000001, 1) := by decide +kernel
example : hostShowPair (.ipv6 [0, 0, 0, 0, 0, 0xffff, 0x0102, 0x0304]) = "::ffff:1.2.3.4".toList := by decide +kernel
example : parse hostParseOpt "host:65536".toList = .error .port := by decide +kernel
example : parse hostParseOpt "::1:80".toList = .error .host := by decide +kernel

end Imdlv.C17
