import Imdlv.Props.C11
/-!
# C11 (several peers) — whichever peer wins the race, what is written is authentic

`FromLink::run` asks every peer the trackers returned, in parallel, and takes the metadata of
*any one* that delivers (`peers.par_iter().find_map_any(..)`): which one is a matter of scheduling.
The model of that choice is a relation (`FindMapAny`): the outcome is the dictionary of some
successful fetch, and it is "none" only if every fetch failed. For every set of peers, every byte
stream each of them sends and every way the race may go: a torrent is written only from a
dictionary whose re-serialisation hashes to the link's infohash (`multi_writes_only_authentic`),
nothing is written exactly when no peer delivered (`multi_none_iff`), and one honest peer among any
number of lying ones is enough for a torrent to be written (`one_honest_peer_suffices`).
-/
namespace Imdlv.C11
open Imdlv Imdlv.Peer

variable {ι δ : Type} [DecidableEq δ]

/-- `find_map_any` over the per-peer results: any success may be the one returned; `none` only when
there is no success -/
def FindMapAny (results : List (Result ι)) (chosen : Option ι) : Prop :=
  match chosen with
  | some info => ∃ r ∈ results, ∃ reqs, r = Result.ok info reqs
  | none => ∀ r ∈ results, ∃ e reqs, r = Result.error e reqs

/-- **Whoever wins, the dictionary is authentic** -/
theorem multi_authentic (R : Readers ι) (H : Bytes → δ) (H20 : δ → Bytes) (target : δ) (streams : List Bytes)
    (info : ι) (h : FindMapAny (streams.map (fetch R H H20 target)) (some info)) :
    H (R.serialize info) = target := by
  obtain ⟨r, hr, reqs, rfl⟩ := h
  simp only [List.mem_map] at hr
  obtain ⟨incoming, _, hf⟩ := hr
  exact authentic R H H20 target incoming info reqs hf

/-- what `from-link` writes with several peers: the wrapped dictionary of the chosen fetch -/
def multiOutput (wrap : ι → Bytes) (chosen : Option ι) : Option Bytes := chosen.map wrap

theorem multi_writes_only_authentic (R : Readers ι) (H : Bytes → δ) (H20 : δ → Bytes) (target : δ)
    (streams : List Bytes) (wrap : ι → Bytes) (chosen : Option ι) (out : Bytes)
    (hc : FindMapAny (streams.map (fetch R H H20 target)) chosen) (h : multiOutput wrap chosen = some out) :
    ∃ info, out = wrap info ∧ H (R.serialize info) = target := by
  cases chosen with
  | none => simp [multiOutput] at h
  | some info =>
    simp only [multiOutput, Option.map_some, Option.some.injEq] at h
    exact ⟨info, h.symm, multi_authentic R H H20 target streams info hc⟩

/-- **Nothing is written exactly when every peer failed** -/
theorem multi_none_iff (results : List (Result ι)) (chosen : Option ι) (hc : FindMapAny results chosen) :
    chosen = none ↔ ∀ r ∈ results, ∃ e reqs, r = Result.error e reqs := by
  constructor
  · intro h; subst h; exact hc
  · intro hall
    cases chosen with
    | none => rfl
    | some info =>
      obtain ⟨r, hr, reqs, rfl⟩ := hc
      obtain ⟨e, reqs', he⟩ := hall _ hr
      cases he

/-- **One honest peer suffices**, however many others lie, stall or hang up -/
theorem one_honest_peer_suffices (R : Readers ι) (H : Bytes → δ) (H20 : δ → Bytes) (target : δ)
    (streams : List Bytes) (honest : Bytes) (hm : honest ∈ streams) (info : ι) (reqs : List Nat)
    (hf : fetch R H H20 target honest = Result.ok info reqs)
    (chosen : Option ι) (hc : FindMapAny (streams.map (fetch R H H20 target)) chosen) :
    ∃ info', chosen = some info' ∧ H (R.serialize info') = target := by
  cases chosen with
  | none =>
    have := hc (fetch R H H20 target honest) (List.mem_map.mpr ⟨honest, hm, rfl⟩)
    obtain ⟨e, r, he⟩ := this
    rw [hf] at he; cases he
  | some info' => exact ⟨info', rfl, multi_authentic R H H20 target streams info' hc⟩

/-! non-vacuity: with no peer at all the only outcome is "none"; with a success in the list it can be chosen -/
example : FindMapAny ([] : List (Result Nat)) none := by intro r hr; cases hr
example : FindMapAny [Result.error .network [], Result.ok (7 : Nat) [0]] (some 7) :=
  ⟨_, by simp, [0], rfl⟩

end Imdlv.C11
