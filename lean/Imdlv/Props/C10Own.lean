import Imdlv.Props.C10
/-!
# C10 (own parser) — imdl's magnet parser recovers what the printer put in

`MagnetLink::parse` runs over the pairs `query_pairs` yields (a form-urlencoded parser, i.e.
`stdParse true`). Composed with `link_decodes`: for every link with a 20-byte infohash, whose tracker
texts `Url::parse` accepts and whose peer texts `HostPort::from_str` accepts (parameters `urlOk`,
`peerOk`: both happen *before* the link is built, so every printed link satisfies them), parsing the
printed query gives back exactly the infohash, the name, the trackers in order and the peers in
order. The selection (`so`) is not part of what the parser keeps, as in the code.
-/
namespace Imdlv.C10
open Imdlv Imdlv.Magnet

theorem key_facts :
    b "xt" ≠ b "tr" ∧ b "xt" ≠ b "dn" ∧ b "xt" ≠ b "x.pe" ∧ b "dn" ≠ b "tr" ∧ b "x.pe" ≠ b "tr" ∧
    b "x.pe" ≠ b "dn" ∧ b "so" ≠ b "tr" ∧ b "so" ≠ b "dn" ∧ b "so" ≠ b "x.pe" ∧ (b "urn:btih:").length = 9 := by
  decide +kernel

/-- the parser's per-pair step (the body of the fold in `parsePairs`) -/
def pstep (urlOk peerOk : Bytes → Bool) (acc : Except PErr Parsed) (kv : Bytes × Bytes) : Except PErr Parsed :=
  match acc with
  | .error e => .error e
  | .ok p =>
    if kv.1 = b "tr" then (if urlOk kv.2 then .ok { p with trackers := p.trackers ++ [kv.2] } else .error .tracker)
    else if kv.1 = b "dn" then .ok { p with name := some kv.2 }
    else if kv.1 = b "x.pe" then (if peerOk kv.2 then .ok { p with peers := p.peers ++ [kv.2] } else .error .peer)
    else .ok p

theorem parsePairs_eq (urlOk peerOk : Bytes → Bool) (pairs : List (Bytes × Bytes)) :
    parsePairs urlOk peerOk pairs =
      match findTopic pairs with
      | .error e => .error e
      | .ok ih => pairs.foldl (pstep urlOk peerOk) (.ok { infohash := ih, name := none, trackers := [], peers := [] }) := rfl

theorem fold_trackers (urlOk peerOk : Bytes → Bool) (ts : List Bytes) (h : ∀ t ∈ ts, urlOk t = true) :
    ∀ p : Parsed, (ts.map fun t => (b "tr", t)).foldl (pstep urlOk peerOk) (.ok p)
      = .ok { p with trackers := p.trackers ++ ts } := by
  induction ts with
  | nil => intro p; simp
  | cons t ts ih =>
    intro p
    have ht : urlOk t = true := h t (by simp)
    simp only [List.map_cons, List.foldl_cons, pstep, ht, if_true]
    rw [ih (fun t' ht' => h t' (by simp [ht']))]
    simp

theorem fold_peers (urlOk peerOk : Bytes → Bool) (ps : List Bytes) (h : ∀ x ∈ ps, peerOk x = true) :
    ∀ p : Parsed, (ps.map fun x => (b "x.pe", x)).foldl (pstep urlOk peerOk) (.ok p)
      = .ok { p with peers := p.peers ++ ps } := by
  obtain ⟨_, _, _, _, k5, k6, _, _, _, _⟩ := key_facts
  induction ps with
  | nil => intro p; simp
  | cons x ps ih =>
    intro p
    have hx : peerOk x = true := h x (by simp)
    simp only [List.map_cons, List.foldl_cons, pstep, k5, k6, hx, if_true, if_false]
    rw [ih (fun t' ht' => h t' (by simp [ht']))]
    simp

theorem findTopic_expected (l : Link) (hih : l.infohash.length = 20) :
    findTopic (expectedPairs l) = .ok l.infohash := by
  obtain ⟨_, _, _, _, _, _, _, _, _, k10⟩ := key_facts
  have htake : (b "urn:btih:" ++ hexLower l.infohash).take 9 = b "urn:btih:" := by
    rw [← k10]; exact List.take_left
  have hdrop : (b "urn:btih:" ++ hexLower l.infohash).drop 9 = hexLower l.infohash := by
    rw [← k10]; exact List.drop_left
  have hlen : (hexLower l.infohash).length = 40 := by rw [hexLower_length, hih]
  unfold expectedPairs
  simp only [List.cons_append, List.nil_append, findTopic, htake, hdrop, and_self, if_true, hlen,
    ne_eq, not_true_eq_false, if_false, unhex40_hexLower]

/-- **imdl's own parser recovers infohash, name, trackers and peers** from the printed query,
whichever `+` convention the pair splitter uses. -/
theorem own_parser_recovers (urlOk peerOk : Bytes → Bool) (pa : Bool) (l : Link)
    (hih : l.infohash.length = 20)
    (hu : ∀ t ∈ l.trackers, urlOk t = true) (hp : ∀ x ∈ l.peers, peerOk x = true) :
    parsePairs urlOk peerOk (stdParse pa (toQuery l))
      = .ok { infohash := l.infohash, name := l.name, trackers := l.trackers, peers := l.peers } := by
  obtain ⟨k1, k2, k3, k4, _, _, k7, k8, k9, _⟩ := key_facts
  rw [link_decodes, parsePairs_eq, findTopic_expected l hih]
  obtain ⟨ih, name, trs, pes, idx⟩ := l
  simp only at hu hp ⊢
  unfold expectedPairs
  simp only [List.foldl_append, List.foldl_cons, List.foldl_nil]
  -- xt is skipped
  have hxt : pstep urlOk peerOk (.ok { infohash := ih, name := none, trackers := [], peers := [] })
      (b "xt", b "urn:btih:" ++ hexLower ih)
      = .ok { infohash := ih, name := none, trackers := [], peers := [] } := by
    simp [pstep, k1, k2, k3]
  rw [hxt]
  cases name with
  | none =>
    simp only [List.foldl_nil]
    rw [fold_trackers urlOk peerOk trs hu, fold_peers urlOk peerOk pes hp]
    by_cases he : idx.isEmpty = true
    · simp [he]
    · simp [he, pstep, k7, k8, k9]
  | some n =>
    have hdn : pstep urlOk peerOk (.ok { infohash := ih, name := none, trackers := [], peers := [] }) (b "dn", n)
        = .ok { infohash := ih, name := some n, trackers := [], peers := [] } := by
      simp [pstep, k4]
    simp only [List.foldl_cons, List.foldl_nil]
    rw [hdn, fold_trackers urlOk peerOk trs hu, fold_peers urlOk peerOk pes hp]
    by_cases he : idx.isEmpty = true
    · simp [he]
    · simp [he, pstep, k7, k8, k9]

/-! non-vacuity: the sample link of `Props/C10` has a 20-byte infohash -/
example : (sampleLink).infohash.length = 20 := by decide

end Imdlv.C10
