import Imdlv.Model.Peer
import Imdlv.Lemmas.Peer
import Imdlv.Lemmas.HonestConcrete
/-!
# C11 — metadata fetched from peers is authentic, and honest peers are understood

`incoming` is *every* byte string a peer can send; the typed readers `R`
(serde/bendy) and the hash `H` are arbitrary.
-/
namespace Imdlv.C11
open Imdlv Imdlv.Peer

variable {ι δ : Type} [DecidableEq δ]

/-- a step that finishes has checked the hash of the re-serialised dictionary -/
theorem step_done_authentic (R : Readers ι) (H : Bytes → δ) (target : δ) (c c' : Client) (m : Msg) (info : ι)
    (h : step R H target c m = .done info c') : H (R.serialize info) = target := by
  unfold step at h
  split at h
  · cases h
  · split at h
    · cases h
    · cases h
    · rename_i ext body
      split at h
      · -- extension handshake
        split at h
        · cases h
        · split at h
          · cases h
          · split at h <;> cases h
      · split at h
        · split at h
          · cases h
          · split at h
            · cases h
            · split at h
              · cases h
              · rename_i u offset _
                dsimp only at h
                split at h
                · cases h
                · split at h
                  · cases h
                  · split at h
                    · cases h
                    · split at h
                      · split at h
                        · cases h
                        · split at h
                          · rename_i hh
                            simp only [Step.done.injEq] at h
                            rw [← h.1]; exact hh
                          · cases h
                      · split at h <;> cases h
        · cases h

theorem fetchLoop_authentic (R : Readers ι) (H : Bytes → δ) (target : δ) :
    ∀ (fuel : Nat) (c : Client) (s : Bytes) (info : ι) (reqs : List Nat),
      fetchLoop R H target fuel c s = .ok info reqs → H (R.serialize info) = target := by
  intro fuel
  induction fuel with
  | zero => intro c s info reqs h; simp [fetchLoop] at h
  | succ n ih =>
    intro c s info reqs h
    unfold fetchLoop at h
    split at h
    · cases h
    · rename_i m rest _
      cases hs : step R H target c m with
      | fail e => simp [hs] at h
      | done i c' =>
        simp only [hs, Result.ok.injEq] at h
        rw [← h.1]
        exact step_done_authentic R H target c c' m i hs
      | «continue» c' =>
        simp only [hs] at h
        exact ih c' rest info reqs h

/-- **Authentic**: whatever bytes the peer sends, if the fetch succeeds the
accepted dictionary (as it will be written) hashes to the magnet link's infohash. -/
theorem authentic (R : Readers ι) (H : Bytes → δ) (H20 : δ → Bytes) (target : δ) (incoming : Bytes)
    (info : ι) (reqs : List Nat) (h : fetch R H H20 target incoming = .ok info reqs) :
    H (R.serialize info) = target := by
  unfold fetch at h
  split at h
  · cases h
  · exact fetchLoop_authentic R H target _ _ _ info reqs h

/-- **Nothing is written unless the fetch succeeded** — and then only an authentic dictionary. -/
theorem write_only_authentic (R : Readers ι) (H : Bytes → δ) (H20 : δ → Bytes) (target : δ) (incoming : Bytes)
    (wrap : ι → Bytes) (out : Bytes) (h : fromLinkOutput wrap (fetch R H H20 target incoming) = some out) :
    ∃ info, out = wrap info ∧ H (R.serialize info) = target := by
  cases hf : fetch R H H20 target incoming with
  | error e r => simp [hf, fromLinkOutput] at h
  | ok info r =>
    simp only [hf, fromLinkOutput, Option.some.injEq] at h
    exact ⟨info, h.symm, authentic R H H20 target incoming info r hf⟩

theorem no_write_on_failure (wrap : ι → Bytes) (e : FErr) (r : List Nat) :
    fromLinkOutput wrap (Result.error e r : Result ι) = none := rfl

/-- a wrong handshake (header, infohash, missing extension bit, or fewer than 68 bytes) ends the fetch
before any message is read -/
theorem bad_handshake_rejected (R : Readers ι) (H : Bytes → δ) (H20 : δ → Bytes) (target : δ) (incoming : Bytes)
    (e : FErr) (h : checkHandshake (H20 target) (incoming.take Consts.peerHandshakeLen) = .error e) :
    fetch R H H20 target incoming = .error e [] := by
  simp [fetch, h]

/-- messages that are not extended messages never change the client -/
theorem ordinary_messages_ignored (R : Readers ι) (H : Bytes → δ) (target : δ) (c : Client) (m : Msg)
    (h : m.id.toNat ≠ Consts.extendedFlavour) : step R H target c m = .continue c := by
  simp [step, h]

/-! ## framing -/

theorem ofBE_toBE4 (n : Nat) (h : n < 2 ^ 32) : ofBE (toBE4 n) = n := by
  have e : ∀ x, (UInt8.ofNat (x % 256)).toNat = x % 256 := by
    intro x; simp [UInt8.toNat_ofNat]
  simp only [ofBE, toBE4, List.foldl_cons, List.foldl_nil, e]
  omega

theorem toBE4_length (n : Nat) : (toBE4 n).length = 4 := rfl

/-- **Keep-alives are skipped**: a zero length prefix consumes exactly four bytes -/
theorem recv_keepalive (fuel : Nat) (s : Bytes) : recv (fuel + 1) (keepAlive ++ s) = recv fuel s := by
  simp [recv, keepAlive, ofBE]
  intro h; omega

/-- **Framing round trip**: a serialised message followed by anything is received as that message,
leaving exactly the rest — independent of how the bytes were segmented in transit -/
theorem recv_frame (fuel : Nat) (m : Msg) (rest : Bytes) (hlen : ∀ p, m.payload = some p → 0 < p.length ∧ p.length + 1 < 2 ^ 32) :
    recv (fuel + 1) (frame m ++ rest) = some (m, rest) := by
  cases hp : m.payload with
  | none =>
    have : frame m = toBE4 1 ++ [m.id] := by simp [frame, hp]
    rw [this]
    unfold recv
    have h4 : (toBE4 1 ++ [m.id] ++ rest).take 4 = toBE4 1 := by simp [toBE4]
    have hd : (toBE4 1 ++ [m.id] ++ rest).drop 4 = m.id :: rest := by simp [toBE4]
    have hl : ¬ (toBE4 1 ++ [m.id] ++ rest).length < 4 := by simp [toBE4]
    simp only [hl, if_false, h4, hd, ofBE_toBE4 1 (by decide)]
    simp
    cases m; simp_all
  | some p =>
    obtain ⟨hpos, hbound⟩ := hlen p hp
    have : frame m = toBE4 (1 + p.length) ++ [m.id] ++ p := by simp [frame, hp]
    rw [this]
    unfold recv
    have h4 : (toBE4 (1 + p.length) ++ [m.id] ++ p ++ rest).take 4 = toBE4 (1 + p.length) := by simp [toBE4]
    have hd : (toBE4 (1 + p.length) ++ [m.id] ++ p ++ rest).drop 4 = m.id :: (p ++ rest) := by simp [toBE4]
    have hl : ¬ (toBE4 (1 + p.length) ++ [m.id] ++ p ++ rest).length < 4 := by simp [toBE4]
    simp only [hl, if_false, h4, hd, ofBE_toBE4 (1 + p.length) (by omega)]
    have h0 : ¬ 1 + p.length = 0 := by omega
    have h1 : ¬ 1 + p.length = 1 := by omega
    simp only [h0, h1, if_false]
    have : 1 + p.length - 1 = p.length := by omega
    rw [this]
    simp
    cases m; simp_all

/-! ## honest peers are understood

An honest peer (BEP 3/9/10), in the byte-stream model: after its handshake it sends an extension
handshake announcing `metadata_size = |served|` and some `ut_metadata` id, then the pieces
`0, 1, …` of `served` (each at most 16 KiB, the last one shorter or full) as `data` messages, with
any number of keep-alives, ordinary messages and messages of other extensions before, between and
after them. TCP segmentation is invisible to a byte-stream reader, so it does not appear. -/

/-- the `k`-th metadata piece of `served` -/
def chunk (served : Bytes) (k : Nat) : Bytes := (served.drop (k * Consts.utPieceLength)).take Consts.utPieceLength

def extMsg (ext : Nat) (body : Bytes) : Msg := { id := UInt8.ofNat Consts.extendedFlavour, payload := some (UInt8.ofNat ext :: body) }

/-- what the peer sends for pieces `i, i+1, …, i+n-1`: `noise k` before piece `k`, whose message body is `body k` -/
def piecesFrom (noise : Nat → List Item) (body : Nat → Bytes) : Nat → Nat → Bytes
  | 0, _ => []
  | n + 1, i => wire (noise i) ++ frame (extMsg Consts.ownUtMetadataId (body i)) ++ piecesFrom noise body n (i + 1)

/-- rounds of the fetch loop needed for those pieces -/
def cost (noise : Nat → List Item) : Nat → Nat → Nat
  | 0, _ => 0
  | n + 1, i => msgCount (noise i) + 1 + cost noise n (i + 1)

theorem extMsg_framed (ext : Nat) (body : Bytes) (h : body.length + 2 < 2 ^ 32) : Framed (extMsg ext body) := by
  intro p hp
  simp only [extMsg, Option.some.injEq] at hp
  subst hp
  simp only [List.length_cons]; omega

theorem take_succ_chunk (served : Bytes) (k : Nat) :
    served.take (k * Consts.utPieceLength) ++ chunk served k = served.take ((k + 1) * Consts.utPieceLength) := by
  unfold chunk
  rw [Nat.add_mul, Nat.one_mul, List.take_add]

/-- one data message, received in the state the honest exchange has reached -/
theorem step_data (R : Readers ι) (H : Bytes → δ) (target : δ) (served : Bytes) (info : ι) (h : ExtHandshake)
    (hsize : h.metadataSize = some served.length)
    (hinfo : R.info served = some info) (hhash : H (R.serialize info) = target)
    (k : Nat) (hk : k * Consts.utPieceLength < served.length)
    (c : Client) (hbuf : c.buf = served.take (k * Consts.utPieceLength)) (hhs : c.hs = some h)
    (body : Bytes) (ts : Option Nat) (off : Nat)
    (hut : R.utMsg body = some ({ msgType := 1, piece := k, totalSize := ts }, off)) (hdata : body.drop off = chunk served k) :
    step R H target c (extMsg Consts.ownUtMetadataId body) =
      if served.length ≤ (k + 1) * Consts.utPieceLength then .done info { c with buf := served }
      else .continue { c with buf := served.take ((k + 1) * Consts.utPieceLength), requests := c.requests ++ [k + 1] } := by
  have hP : Consts.utPieceLength = 16384 := by decide
  have hflav : (UInt8.ofNat Consts.extendedFlavour).toNat = Consts.extendedFlavour := by decide
  have hown : (UInt8.ofNat Consts.ownUtMetadataId).toNat = Consts.ownUtMetadataId := by decide
  have hown0 : Consts.ownUtMetadataId ≠ 0 := by decide
  have hbl : c.buf.length = k * Consts.utPieceLength := by
    rw [hbuf, List.length_take]; omega
  have hpiece : c.buf.length / Consts.utPieceLength = k := by
    rw [hbl, hP]; omega
  have hchunk_len : (chunk served k).length ≤ Consts.utPieceLength := by
    unfold chunk; rw [List.length_take]; omega
  unfold step extMsg
  simp only [hflav, ne_eq, not_true_eq_false, if_false, hown, hown0, hhs, hsize, hut, hpiece, hdata]
  try simp only [show ¬ ((1 : Nat) ≠ 1) from by simp, if_false, show ¬ (k ≠ k) from by simp]
  have hnot : ¬ (chunk served k).length > Consts.utPieceLength := by omega
  simp only [hnot, if_false]
  rw [hbuf, take_succ_chunk]
  by_cases hlast : served.length ≤ (k + 1) * Consts.utPieceLength
  · have hfull : served.take ((k + 1) * Consts.utPieceLength) = served := List.take_of_length_le hlast
    simp only [hlast, if_true, hfull, hinfo, hhash]
  · have hlen : (served.take ((k + 1) * Consts.utPieceLength)).length = (k + 1) * Consts.utPieceLength := by
      rw [List.length_take]; omega
    have hne : ¬ (served.take ((k + 1) * Consts.utPieceLength)).length = served.length := by omega
    have hlt : (served.take ((k + 1) * Consts.utPieceLength)).length < served.length := by omega
    simp only [hlast, if_false, hne, hlt, if_true]

/-- the data phase: from the state reached after `i` correct pieces, the remaining pieces — with
arbitrary ignorable traffic in between — complete the fetch -/
theorem pieces_complete (R : Readers ι) (H : Bytes → δ) (target : δ) (served : Bytes) (info : ι) (h : ExtHandshake)
    (hsize : h.metadataSize = some served.length)
    (hinfo : R.info served = some info) (hhash : H (R.serialize info) = target)
    (noise : Nat → List Item) (body : Nat → Bytes) (ts : Nat → Option Nat) (off : Nat → Nat)
    (hnoise : ∀ k, Noise (noise k)) (N : Nat)
    (hframed : ∀ k, k < N → (body k).length + 2 < 2 ^ 32)
    (hut : ∀ k, k < N → R.utMsg (body k) = some ({ msgType := 1, piece := k, totalSize := ts k }, off k))
    (hdata : ∀ k, k < N → (body k).drop (off k) = chunk served k) :
    ∀ (n i : Nat) (c : Client) (tail : Bytes) (F : Nat), i + n ≤ N →
      0 < n → (i + n - 1) * Consts.utPieceLength < served.length → served.length ≤ (i + n) * Consts.utPieceLength →
      c.buf = served.take (i * Consts.utPieceLength) → c.hs = some h →
      fetchLoop R H target (cost noise n i + F) c (piecesFrom noise body n i ++ tail)
        = .ok info (c.requests ++ (List.range' (i + 1) (n - 1))) := by
  intro n
  induction n with
  | zero => intro i c tail F _ h0; omega
  | succ n ih =>
    intro i c tail F hN _ hlo hhi hbuf hhs
    have hiN : i < N := by omega
    have hP : Consts.utPieceLength = 16384 := by decide
    have hk : i * Consts.utPieceLength < served.length := by
      have : i * Consts.utPieceLength ≤ (i + (n + 1) - 1) * Consts.utPieceLength := Nat.mul_le_mul_right _ (by omega)
      omega
    simp only [piecesFrom, cost, List.append_assoc]
    have e : msgCount (noise i) + 1 + cost noise n (i + 1) + F = msgCount (noise i) + ((cost noise n (i + 1) + F) + 1) := by omega
    rw [e, fetchLoop_noise R H target c (noise i) (hnoise i), fetchLoop_unfold,
      recvC_frame _ _ (extMsg_framed _ _ (hframed i hiN))]
    simp only [step_data R H target served info h hsize hinfo hhash i hk c hbuf hhs (body i) (ts i) (off i) (hut i hiN) (hdata i hiN)]
    by_cases hlast : served.length ≤ (i + 1) * Consts.utPieceLength
    · -- this was the last piece
      have hn0 : n = 0 := by
        apply Classical.byContradiction
        intro hne
        have : (i + 1) * Consts.utPieceLength ≤ (i + (n + 1) - 1) * Consts.utPieceLength := Nat.mul_le_mul_right _ (by omega)
        omega
      subst hn0
      simp [hlast]
    · simp only [hlast, if_false]
      have hnpos : 0 < n := by
        apply Classical.byContradiction
        intro hne
        have : n = 0 := by omega
        subst this
        exact hlast hhi
      have := ih (i + 1) { c with buf := served.take ((i + 1) * Consts.utPieceLength), requests := c.requests ++ [i + 1] } tail F (by omega) hnpos
        (by have : i + 1 + n - 1 = i + (n + 1) - 1 := by omega
            rw [this]; exact hlo)
        (by have : i + 1 + n = i + (n + 1) := by omega
            rw [this]; exact hhi)
        rfl hhs
      rw [this]
      simp only [List.append_assoc, List.singleton_append]
      congr 1
      have : n + 1 - 1 = (n - 1) + 1 := by omega
      rw [this, List.range'_succ]

/-- number of metadata pieces -/
def pieceCount (served : Bytes) : Nat := (served.length + Consts.utPieceLength - 1) / Consts.utPieceLength

/-- **Honest peers are understood**: for every non-empty info dictionary that the typed reader
accepts and re-serialises to the hash of the link, every metadata size (one to many 16 KiB pieces,
exact multiples included), every extension-id assignment (the peer's own ids never appear in what it
sends to us, ours is fixed), and every interleaving of keep-alives, ordinary messages and foreign
extension messages before, between and after the relevant ones, the fetch succeeds, returns that
dictionary, and has requested exactly the pieces `0 … n-1` in order. -/
theorem honest_complete (R : Readers ι) (H : Bytes → δ) (target : δ) (served : Bytes) (info : ι) (h : ExtHandshake)
    (hpos : 0 < served.length)
    (hsize : h.metadataSize = some served.length) (hid : h.utMetadataId.isSome = true)
    (hinfo : R.info served = some info) (hhash : H (R.serialize info) = target)
    (pre : List Item) (hsBody : Bytes) (hpre : Noise pre) (hhsFramed : hsBody.length + 2 < 2 ^ 32)
    (hhs : R.handshake hsBody = some h)
    (noise : Nat → List Item) (body : Nat → Bytes) (ts : Nat → Option Nat) (off : Nat → Nat)
    (hnoise : ∀ k, Noise (noise k))
    (hframed : ∀ k, k < pieceCount served → (body k).length + 2 < 2 ^ 32)
    (hut : ∀ k, k < pieceCount served → R.utMsg (body k) = some ({ msgType := 1, piece := k, totalSize := ts k }, off k))
    (hdata : ∀ k, k < pieceCount served → (body k).drop (off k) = chunk served k)
    (tail : Bytes) (F : Nat) :
    fetchLoop R H target (msgCount pre + 1 + cost noise (pieceCount served) 0 + F) Client.init
        (wire pre ++ frame (extMsg 0 hsBody) ++ piecesFrom noise body (pieceCount served) 0 ++ tail)
      = .ok info (List.range (pieceCount served)) := by
  have hP : Consts.utPieceLength = 16384 := by decide
  have hflav : (UInt8.ofNat Consts.extendedFlavour).toNat = Consts.extendedFlavour := by decide
  have hn : 0 < pieceCount served := by unfold pieceCount; rw [hP]; omega
  have hlo : (0 + pieceCount served - 1) * Consts.utPieceLength < served.length := by
    unfold pieceCount; rw [hP]; omega
  have hhi : served.length ≤ (0 + pieceCount served) * Consts.utPieceLength := by
    unfold pieceCount; rw [hP]; omega
  have e : msgCount pre + 1 + cost noise (pieceCount served) 0 + F = msgCount pre + ((cost noise (pieceCount served) 0 + F) + 1) := by omega
  simp only [List.append_assoc]
  rw [e, fetchLoop_noise R H target Client.init pre hpre, fetchLoop_unfold, recvC_frame _ _ (extMsg_framed _ _ hhsFramed)]
  -- the extension handshake
  have hstep : step R H target Client.init (extMsg 0 hsBody) = .continue { Client.init with hs := some h, requests := [0] } := by
    unfold step extMsg
    have hz : (UInt8.ofNat 0).toNat = 0 := by decide
    simp only [hflav, ne_eq, not_true_eq_false, if_false, hz, if_true, hhs, hsize, Option.isNone_some, Bool.false_eq_true]
    have : h.utMetadataId.isNone = false := by
      cases hu : h.utMetadataId with
      | none => simp [hu] at hid
      | some _ => rfl
    simp [this, Client.init]
  simp only [hstep]
  have := pieces_complete R H target served info h hsize hinfo hhash noise body ts off hnoise (pieceCount served) hframed hut hdata
    (pieceCount served) 0 { Client.init with hs := some h, requests := [0] } tail F (by omega) hn hlo hhi (by simp [Client.init]) rfl
  rw [this]
  congr 1
  simp only [List.singleton_append]
  have : pieceCount served = (pieceCount served - 1) + 1 := by omega
  rw [List.range_eq_range', this, List.range'_succ]
  simp

/-- the honest handshake passes -/
theorem honest_handshake_ok (t : Bytes) (reserved peerId : Bytes) (ht : t.length = 20) (hr : reserved.length = 8)
    (hbit : reserved.getD 5 0 &&& UInt8.ofNat Consts.extensionBit ≠ 0) (hp : peerId.length = 20) :
    checkHandshake t (Consts.peerHeader ++ reserved ++ t ++ peerId) = .ok () := by
  have hh : Consts.peerHeader.length = 20 := by decide
  unfold checkHandshake
  have h1 : ¬ (Consts.peerHeader ++ reserved ++ t ++ peerId).length < Consts.peerHandshakeLen := by
    simp only [List.length_append, hh, hr, ht, hp]; decide
  have h2 : (Consts.peerHeader ++ reserved ++ t ++ peerId).take 20 = Consts.peerHeader := by
    rw [List.append_assoc, List.append_assoc, List.take_append_of_le_length (by omega)]
    exact List.take_of_length_le (by omega)
  have h3 : ((Consts.peerHeader ++ reserved ++ t ++ peerId).drop 28).take 20 = t := by
    have : (Consts.peerHeader ++ reserved ++ t ++ peerId).drop 28 = t ++ peerId := by
      rw [List.append_assoc (Consts.peerHeader ++ reserved)]
      rw [List.drop_append_of_le_length (by simp [hh, hr])]
      have : (Consts.peerHeader ++ reserved).drop 28 = [] := List.drop_of_length_le (by simp [hh, hr])
      rw [this]; rfl
    rw [this, List.take_append_of_le_length (by omega)]
    exact List.take_of_length_le (by omega)
  have h4 : ((Consts.peerHeader ++ reserved ++ t ++ peerId).drop 20).take 8 = reserved := by
    have : (Consts.peerHeader ++ reserved ++ t ++ peerId).drop 20 = reserved ++ (t ++ peerId) := by
      rw [List.append_assoc, List.append_assoc, List.drop_append_of_le_length (by omega)]
      have : Consts.peerHeader.drop 20 = [] := List.drop_of_length_le (by omega)
      rw [this]; rfl
    rw [this, List.take_append_of_le_length (by omega)]
    exact List.take_of_length_le (by omega)
  simp only [h1, if_false, h2, ne_eq, not_true_eq_false, h3, h4]
  simp only [hbit, if_false]

theorem frame_length_ge (m : Msg) : 5 ≤ (frame m).length := by
  unfold frame; cases m.payload <;> simp [toBE4]

theorem cost_le (noise : Nat → List Item) (body : Nat → Bytes) : ∀ n i, 5 * cost noise n i ≤ (piecesFrom noise body n i).length := by
  intro n
  induction n with
  | zero => intro i; simp [cost, piecesFrom]
  | succ n ih =>
    intro i
    simp only [cost, piecesFrom, List.length_append]
    have h1 := wire_length_ge (noise i)
    have h2 := frame_length_ge (extMsg Consts.ownUtMetadataId (body i))
    have h3 := ih (i + 1)
    omega

/-- **Honest peers are understood, whole connection**: the same for `fetch` itself — the peer's
68-byte handshake followed by the honest stream and anything after it — with the fuel `fetch` uses. -/
theorem honest_fetch (R : Readers ι) (H : Bytes → δ) (H20 : δ → Bytes) (target : δ) (served : Bytes) (info : ι) (h : ExtHandshake)
    (reserved peerId : Bytes) (ht : (H20 target).length = 20) (hr : reserved.length = 8)
    (hbit : reserved.getD 5 0 &&& UInt8.ofNat Consts.extensionBit ≠ 0) (hp : peerId.length = 20)
    (hpos : 0 < served.length)
    (hsize : h.metadataSize = some served.length) (hid : h.utMetadataId.isSome = true)
    (hinfo : R.info served = some info) (hhash : H (R.serialize info) = target)
    (pre : List Item) (hsBody : Bytes) (hpre : Noise pre) (hhsFramed : hsBody.length + 2 < 2 ^ 32)
    (hhs : R.handshake hsBody = some h)
    (noise : Nat → List Item) (body : Nat → Bytes) (ts : Nat → Option Nat) (off : Nat → Nat)
    (hnoise : ∀ k, Noise (noise k))
    (hframed : ∀ k, k < pieceCount served → (body k).length + 2 < 2 ^ 32)
    (hut : ∀ k, k < pieceCount served → R.utMsg (body k) = some ({ msgType := 1, piece := k, totalSize := ts k }, off k))
    (hdata : ∀ k, k < pieceCount served → (body k).drop (off k) = chunk served k)
    (tail : Bytes) :
    fetch R H H20 target
        ((Consts.peerHeader ++ reserved ++ H20 target ++ peerId) ++
          (wire pre ++ frame (extMsg 0 hsBody) ++ piecesFrom noise body (pieceCount served) 0 ++ tail))
      = .ok info (List.range (pieceCount served)) := by
  have hh : Consts.peerHeader.length = 20 := by decide
  have hlen68 : (Consts.peerHeader ++ reserved ++ H20 target ++ peerId).length = Consts.peerHandshakeLen := by
    simp only [List.length_append, hh, hr, ht, hp]; decide
  unfold fetch
  rw [List.take_append_of_le_length (by omega), List.take_of_length_le (by omega),
    honest_handshake_ok (H20 target) reserved peerId ht hr hbit hp]
  simp only
  rw [List.drop_append_of_le_length (by omega), List.drop_of_length_le (by omega), List.nil_append]
  -- enough fuel: every message occupies at least five bytes
  generalize hS : wire pre ++ frame (extMsg 0 hsBody) ++ piecesFrom noise body (pieceCount served) 0 ++ tail = S
  have hneed : msgCount pre + 1 + cost noise (pieceCount served) 0 ≤ S.length := by
    rw [← hS]
    simp only [List.length_append]
    have h1 := wire_length_ge pre
    have h2 := frame_length_ge (extMsg 0 hsBody)
    have h3 := cost_le noise body (pieceCount served) 0
    omega
  have hfuel : ((Consts.peerHeader ++ reserved ++ H20 target ++ peerId) ++ S).length + 1 =
      (msgCount pre + 1 + cost noise (pieceCount served) 0 + 0) +
        (((Consts.peerHeader ++ reserved ++ H20 target ++ peerId) ++ S).length + 1 - (msgCount pre + 1 + cost noise (pieceCount served) 0)) := by
    simp only [List.length_append] at hneed ⊢
    omega
  rw [hfuel]
  apply fetchLoop_mono
  rw [← hS]
  exact honest_complete R H target served info h hpos hsize hid hinfo hhash pre hsBody hpre hhsFramed hhs noise body ts off
    hnoise hframed hut hdata tail 0

/-! ## the same for the concrete serde/bendy readers of the model -/

/-- **Honest peers are understood — concrete readers**: for every info dictionary `i` made of the keys
imdl models (`InfoM.Typed`: UTF-8 text, 16-byte MD5 digests, `pieces` a multiple of 20, sizes in
range, update URL accepted by the URL parser), served as its canonical encoding by a peer that writes
the extension handshake and the data headers as canonical bencode, with any `ut_metadata` id below
256, the model's client (`readersC`) fetches exactly `i`; the link's hash is the hash of the served
bytes. No hypothesis about the readers is left — only the hash function is abstract. -/
theorem honest_fetch_concrete (urlOk : Bytes → Bool) (H : Bytes → δ) (H20 : δ → Bytes) (i : Metainfo.InfoM)
    (hi : i.Typed urlOk) (k : Nat) (hk : k < 256)
    (hbig : (Bencode.encode i.toBVal).length < 2 ^ 31)
    (reserved peerId : Bytes) (ht : (H20 (H (Bencode.encode i.toBVal))).length = 20) (hr : reserved.length = 8)
    (hbit : reserved.getD 5 0 &&& UInt8.ofNat Consts.extensionBit ≠ 0) (hp : peerId.length = 20)
    (pre : List Item) (hpre : Noise pre) (noise : Nat → List Item) (hnoise : ∀ j, Noise (noise j)) (tail : Bytes) :
    let served := Bencode.encode i.toBVal
    fetch (readersC urlOk) H H20 (H served)
        ((Consts.peerHeader ++ reserved ++ H20 (H served) ++ peerId) ++
          (wire pre ++ frame (extMsg 0 (hsBodyOf k served.length)) ++
            piecesFrom noise (fun j => utBodyOf j served.length (chunk served j)) (pieceCount served) 0 ++ tail))
      = .ok i (List.range (pieceCount served)) := by
  intro served
  have hP : Consts.utPieceLength = 16384 := by decide
  have hpos : 0 < served.length := by
    have := Bencode.encode_length_ge i.toBVal
    show 0 < (Bencode.encode i.toBVal).length
    omega
  have hlen63 : served.length < 2 ^ 63 := by
    show (Bencode.encode i.toBVal).length < 2 ^ 63
    omega
  have hchunk : ∀ j, (chunk served j).length ≤ 16384 := by
    intro j; unfold chunk; rw [List.length_take, hP]; omega
  have hnp : pieceCount served < 2 ^ 63 := by
    unfold pieceCount; rw [hP]; omega
  have key := honest_fetch (readersC urlOk) H H20 (H served) served i
    { metadataSize := some served.length, utMetadataId := some k } reserved peerId ht hr hbit hp hpos rfl rfl
    (Metainfo.readInfoC_toBVal urlOk i hi) rfl pre (hsBodyOf k served.length) hpre
    (by have := hsBody_length k served.length (by omega) hlen63; omega)
    (by have := readHandshakeC_honest k served.length hk hlen63 []
        simpa [readersC] using this)
    noise (fun j => utBodyOf j served.length (chunk served j)) (fun _ => some served.length)
    (fun j => (Bencode.encode (.dict (utDict j served.length))).length) hnoise
    (by intro j hj
        have := utHeader_length j served.length (by omega) hlen63
        have := hchunk j
        simp only [utBodyOf, List.length_append]
        omega)
    (by intro j hj
        exact readUtMsgC_honest j served.length (by omega) hlen63 (chunk served j))
    (by intro j _
        exact utBody_drop j served.length (chunk served j))
    tail
  exact key

/-! ## Non-vacuity -/
example : recv 5 ([0,0,0,0] ++ [0,0,0,0] ++ [0,0,0,3, 20, 7, 8] ++ [9]) = some (⟨20, some [7, 8]⟩, [9]) := by
  decide +kernel

/-- the hypotheses of `honest_complete` are satisfiable: a three-byte dictionary served in one piece,
behind a keep-alive, a choke and a foreign extension message, with trivial readers -/
def toyReaders : Readers Bytes :=
  { handshake := fun _ => some { metadataSize := some 3, utMetadataId := some 7 },
    utMsg := fun _ => some ({ msgType := 1, piece := 0, totalSize := none }, 0),
    info := fun b => some b, serialize := fun b => b }
example :
    (match fetchLoop toyReaders (fun b => b) [1, 2, 3] 10 Client.init
      (wire [.keepAlive, .msg ⟨0, none⟩, .msg ⟨20, some [9, 1]⟩] ++ frame (extMsg 0 [100]) ++
        (wire [.keepAlive] ++ frame (extMsg Consts.ownUtMetadataId [1, 2, 3])) ++ [0, 0]) with
      | .ok i r => i == [1, 2, 3] && r == [0]
      | .error _ _ => false) = true := by
  decide +kernel

end Imdlv.C11
