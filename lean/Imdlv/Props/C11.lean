import Imdlv.Model.Peer
/-!
# C11 — metadata fetched from peers is authentic, and honest peers are understood

`incoming` is *every* byte string a peer can send; the typed readers `R`
(serde/bendy) and the hash `H` are arbitrary.
-/
namespace Imdlv.C11
open Imdlv Imdlv.Peer

variable {ι δ : Type} [DecidableEq δ]

/-- a step that finishes has checked the hash of the re-serialised dictionary -/
theorem step_done_authentic (R : Readers ι) (H : Bytes → δ) (target : δ) (c c' : Client) (m : Msg) (info : ι)
    (h : step R H target c m = .done info c') : H (R.serialize info) = target := by
  unfold step at h
  split at h
  · cases h
  · split at h
    · cases h
    · cases h
    · rename_i ext body
      split at h
      · -- extension handshake
        split at h
        · cases h
        · split at h
          · cases h
          · split at h <;> cases h
      · split at h
        · split at h
          · cases h
          · split at h
            · cases h
            · split at h
              · cases h
              · rename_i u offset _
                dsimp only at h
                split at h
                · cases h
                · split at h
                  · cases h
                  · split at h
                    · cases h
                    · split at h
                      · split at h
                        · cases h
                        · split at h
                          · rename_i hh
                            simp only [Step.done.injEq] at h
                            rw [← h.1]; exact hh
                          · cases h
                      · split at h <;> cases h
        · cases h

theorem fetchLoop_authentic (R : Readers ι) (H : Bytes → δ) (target : δ) :
    ∀ (fuel : Nat) (c : Client) (s : Bytes) (info : ι) (reqs : List Nat),
      fetchLoop R H target fuel c s = .ok info reqs → H (R.serialize info) = target := by
  intro fuel
  induction fuel with
  | zero => intro c s info reqs h; simp [fetchLoop] at h
  | succ n ih =>
    intro c s info reqs h
    unfold fetchLoop at h
    split at h
    · cases h
    · rename_i m rest _
      cases hs : step R H target c m with
      | fail e => simp [hs] at h
      | done i c' =>
        simp only [hs, Result.ok.injEq] at h
        rw [← h.1]
        exact step_done_authentic R H target c c' m i hs
      | «continue» c' =>
        simp only [hs] at h
        exact ih c' rest info reqs h

/-- **Authentic**: whatever bytes the peer sends, if the fetch succeeds the
accepted dictionary (as it will be written) hashes to the magnet link's infohash. -/
theorem authentic (R : Readers ι) (H : Bytes → δ) (H20 : δ → Bytes) (target : δ) (incoming : Bytes)
    (info : ι) (reqs : List Nat) (h : fetch R H H20 target incoming = .ok info reqs) :
    H (R.serialize info) = target := by
  unfold fetch at h
  split at h
  · cases h
  · exact fetchLoop_authentic R H target _ _ _ info reqs h

/-- **Nothing is written unless the fetch succeeded** — and then only an authentic dictionary. -/
theorem write_only_authentic (R : Readers ι) (H : Bytes → δ) (H20 : δ → Bytes) (target : δ) (incoming : Bytes)
    (wrap : ι → Bytes) (out : Bytes) (h : fromLinkOutput wrap (fetch R H H20 target incoming) = some out) :
    ∃ info, out = wrap info ∧ H (R.serialize info) = target := by
  cases hf : fetch R H H20 target incoming with
  | error e r => simp [hf, fromLinkOutput] at h
  | ok info r =>
    simp only [hf, fromLinkOutput, Option.some.injEq] at h
    exact ⟨info, h.symm, authentic R H H20 target incoming info r hf⟩

theorem no_write_on_failure (wrap : ι → Bytes) (e : FErr) (r : List Nat) :
    fromLinkOutput wrap (Result.error e r : Result ι) = none := rfl

/-- a wrong handshake (header, infohash, missing extension bit, or fewer than 68 bytes) ends the fetch
before any message is read -/
theorem bad_handshake_rejected (R : Readers ι) (H : Bytes → δ) (H20 : δ → Bytes) (target : δ) (incoming : Bytes)
    (e : FErr) (h : checkHandshake (H20 target) (incoming.take Consts.peerHandshakeLen) = .error e) :
    fetch R H H20 target incoming = .error e [] := by
  simp [fetch, h]

/-- messages that are not extended messages never change the client -/
theorem ordinary_messages_ignored (R : Readers ι) (H : Bytes → δ) (target : δ) (c : Client) (m : Msg)
    (h : m.id.toNat ≠ Consts.extendedFlavour) : step R H target c m = .continue c := by
  simp [step, h]

/-! ## framing -/

theorem ofBE_toBE4 (n : Nat) (h : n < 2 ^ 32) : ofBE (toBE4 n) = n := by
  have e : ∀ x, (UInt8.ofNat (x % 256)).toNat = x % 256 := by
    intro x; simp [UInt8.toNat_ofNat]
  simp only [ofBE, toBE4, List.foldl_cons, List.foldl_nil, e]
  omega

theorem toBE4_length (n : Nat) : (toBE4 n).length = 4 := rfl

/-- **Keep-alives are skipped**: a zero length prefix consumes exactly four bytes -/
theorem recv_keepalive (fuel : Nat) (s : Bytes) : recv (fuel + 1) (keepAlive ++ s) = recv fuel s := by
  simp [recv, keepAlive, ofBE]
  intro h; omega

/-- **Framing round trip**: a serialised message followed by anything is received as that message,
leaving exactly the rest — independent of how the bytes were segmented in transit -/
theorem recv_frame (fuel : Nat) (m : Msg) (rest : Bytes) (hlen : ∀ p, m.payload = some p → 0 < p.length ∧ p.length + 1 < 2 ^ 32) :
    recv (fuel + 1) (frame m ++ rest) = some (m, rest) := by
  cases hp : m.payload with
  | none =>
    have : frame m = toBE4 1 ++ [m.id] := by simp [frame, hp]
    rw [this]
    unfold recv
    have h4 : (toBE4 1 ++ [m.id] ++ rest).take 4 = toBE4 1 := by simp [toBE4]
    have hd : (toBE4 1 ++ [m.id] ++ rest).drop 4 = m.id :: rest := by simp [toBE4]
    have hl : ¬ (toBE4 1 ++ [m.id] ++ rest).length < 4 := by simp [toBE4]
    simp only [hl, if_false, h4, hd, ofBE_toBE4 1 (by decide)]
    simp
    cases m; simp_all
  | some p =>
    obtain ⟨hpos, hbound⟩ := hlen p hp
    have : frame m = toBE4 (1 + p.length) ++ [m.id] ++ p := by simp [frame, hp]
    rw [this]
    unfold recv
    have h4 : (toBE4 (1 + p.length) ++ [m.id] ++ p ++ rest).take 4 = toBE4 (1 + p.length) := by simp [toBE4]
    have hd : (toBE4 (1 + p.length) ++ [m.id] ++ p ++ rest).drop 4 = m.id :: (p ++ rest) := by simp [toBE4]
    have hl : ¬ (toBE4 (1 + p.length) ++ [m.id] ++ p ++ rest).length < 4 := by simp [toBE4]
    simp only [hl, if_false, h4, hd, ofBE_toBE4 (1 + p.length) (by omega)]
    have h0 : ¬ 1 + p.length = 0 := by omega
    have h1 : ¬ 1 + p.length = 1 := by omega
    simp only [h0, h1, if_false]
    have : 1 + p.length - 1 = p.length := by omega
    rw [this]
    simp
    cases m; simp_all

/-! ## Non-vacuity -/
example : recv 5 ([0,0,0,0] ++ [0,0,0,0] ++ [0,0,0,3, 20, 7, 8] ++ [9]) = some (⟨20, some [7, 8]⟩, [9]) := by
  decide +kernel

end Imdlv.C11
