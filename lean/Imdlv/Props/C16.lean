import Imdlv.Lemmas.ByteSize
import Imdlv.Lemmas.ByteSizeFrac
/-!
# C16 — byte-size notation is parsed exactly and printed consistently

The model replaces every `f64` step of `src/bytes.rs` by exact integer
arithmetic (`rn53`, `floorScaled`, `hundredths`); the correspondence check
compares it with the real code on unit boundaries, rounding ties and random
values. Theorems are about that model, for all inputs.
-/
namespace Imdlv.C16
open Imdlv.ByteSize

/-- the suffix table extracted from the source is the documented one -/
theorem suffix_table_documented : Consts.suffixTable =
    [([], 1), (['b'], 1), (['b','y','t','e'], 1), (['b','y','t','e','s'], 1),
     (['k','i','b'], 2 ^ 10), (['m','i','b'], 2 ^ 20), (['g','i','b'], 2 ^ 30),
     (['t','i','b'], 2 ^ 40), (['p','i','b'], 2 ^ 50), (['e','i','b'], 2 ^ 60)] := by
  decide +kernel

theorem display_consts : Consts.displayStep = 1024 ∧ Consts.displaySuffixes.length = 6 := by decide

theorem table_all_pow2 : Consts.suffixTable.all (fun e => isPow2 e.2) = true := by decide +kernel

/-- **Integers are parsed exactly**: a decimal integer `n` followed by any
spelling `u` (any letter case) of a unit with multiplier `mult` denotes exactly
`n · mult` whenever the product fits in 53 bits. -/
theorem parse_integer_exact (n mult : Nat) (u : List Char)
    (hu : ∀ c ∈ u, isNumCh c = false)
    (hl : lookupSuffix (u.map lowerAscii) Consts.suffixTable = some mult)
    (hfit : n * mult < 2 ^ 53) :
    parseBytes (natChars' n ++ u) = .ok (n * mult) := by
  have hall : (natChars' n).all isNumCh = true := by
    have := natChars'_all_digits n
    rw [List.all_eq_true] at this ⊢
    intro c hc; simp [isNumCh, this c hc]
  have hhead : ∀ x ∈ u.head?, isNumCh x = false := by
    intro x hx
    cases u with
    | nil => simp at hx
    | cons a t => simp at hx; subst hx; exact hu _ (by simp)
  obtain ⟨ht, hd⟩ := takeWhile_all isNumCh (natChars' n) u hall hhead
  have hp2 : isPow2 mult = true := by
    have hm := lookupSuffix_mem _ _ _ hl
    have := List.all_eq_true.mp table_all_pow2 _ hm
    exact this
  have hmult := isPow2_spec mult hp2
  have hmpos : 0 < mult := by
    rw [hmult]; exact Nat.two_pow_pos _
  have hn : n < 2 ^ 53 := by
    have : n * 1 ≤ n * mult := Nat.mul_le_mul_left n hmpos
    omega
  unfold parseBytes
  simp only [ht, hd, parseDecimal_natChars', hl, Nat.pow_zero]
  unfold scaleToU64
  simp only [hp2, if_true]
  rw [rn53_int n hn (Nat.log2 mult), ← hmult]
  congr 1
  unfold u64Max
  omega

/-- a digit string, a dot, a digit string: read as one number over a power of ten -/
theorem parseDecimal_frac (ip fp : List Char) (hip : ip.all isDigitCh = true) (hfp : fp.all isDigitCh = true)
    (hne : ¬ (ip = [] ∧ fp = [])) :
    parseDecimal (ip ++ '.' :: fp) = some (digitsVal (ip ++ fp), fp.length) := by
  have h := takeWhile_all isDigitCh ip ('.' :: fp) hip (by
    intro x hx
    simp only [List.head?_cons, Option.mem_def, Option.some.injEq] at hx
    subst hx; decide)
  unfold parseDecimal
  rw [h.1, h.2]
  have hemp : (ip.isEmpty && fp.isEmpty) = false := by
    cases ip with
    | nil =>
      cases fp with
      | nil => exact absurd ⟨rfl, rfl⟩ hne
      | cons _ _ => rfl
    | cons _ _ => rfl
  simp [hfp, hemp]

/-- **Decimal fractions scale the same way, truncated to whole bytes**: digits `ip`, a dot, digits
`fp` (not both empty) and any spelling `u` of a unit with multiplier `mult` denote exactly
`⌊N · mult / 10^d⌋` — `N` the digits read as one number, `d` the number of decimals — whenever
`N · mult` fits in 53 bits. The double-precision detour (round `N/10^d` to 53 bits, multiply, cast)
never reaches the neighbouring integer and keeps exact products exact. -/
theorem parse_fraction_trunc (ip fp u : List Char) (mult : Nat)
    (hip : ip.all isDigitCh = true) (hfp : fp.all isDigitCh = true) (hne : ¬ (ip = [] ∧ fp = []))
    (hu : ∀ c ∈ u, isNumCh c = false)
    (hl : lookupSuffix (u.map lowerAscii) Consts.suffixTable = some mult)
    (hfit : digitsVal (ip ++ fp) * mult < 2 ^ 53) :
    parseBytes (ip ++ '.' :: fp ++ u) = .ok (digitsVal (ip ++ fp) * mult / 10 ^ fp.length) := by
  -- split number from unit
  have hall : (ip ++ '.' :: fp).all isNumCh = true := by
    rw [List.all_append, List.all_cons]
    have a1 : ip.all isNumCh = true := by
      rw [List.all_eq_true] at hip ⊢
      intro c hc; simp [isNumCh, hip c hc]
    have a2 : fp.all isNumCh = true := by
      rw [List.all_eq_true] at hfp ⊢
      intro c hc; simp [isNumCh, hfp c hc]
    simp [a1, a2, isNumCh]
  have hhead : ∀ x ∈ u.head?, isNumCh x = false := by
    intro x hx
    cases u with
    | nil => simp at hx
    | cons a t => simp at hx; subst hx; exact hu _ (by simp)
  obtain ⟨ht, hd⟩ := takeWhile_all isNumCh (ip ++ '.' :: fp) u hall hhead
  have hp2 : isPow2 mult = true := by
    have hm := lookupSuffix_mem _ _ _ hl
    exact List.all_eq_true.mp table_all_pow2 _ hm
  have hmult := isPow2_spec mult hp2
  generalize hk : Nat.log2 mult = k at hmult
  generalize hN : digitsVal (ip ++ fp) = N at hfit ⊢
  generalize hdd : fp.length = d
  have hD : 0 < 10 ^ d := Nat.pow_pos (by omega)
  have hmpos : 0 < mult := by rw [hmult]; exact Nat.two_pow_pos _
  have hN53 : N < 2 ^ 53 := by
    have : N * 1 ≤ N * mult := Nat.mul_le_mul_left N hmpos
    omega
  unfold parseBytes
  simp only [ht, hd, parseDecimal_frac ip fp hip hfp hne, hN, hdd, hl]
  unfold scaleToU64
  simp only [hp2, if_true, hk]
  have hres : N * mult / 10 ^ d ≤ N * mult := Nat.div_le_self _ _
  cases d with
  | zero =>
    -- no decimals: an integer below 2^53 is represented exactly
    simp only [Nat.pow_zero, Nat.div_one]
    rw [rn53_int N hN53 k, ← hmult]
    congr 1
    unfold u64Max; omega
  | succ d' =>
    by_cases hN0 : N = 0
    · subst hN0
      simp [rn53, floorScaled_zero, u64Max]
    · have hNpos : 0 < N := by omega
      have h10 : 10 ≤ 10 ^ (d' + 1) := by
        rw [Nat.pow_succ]
        have : 1 ≤ 10 ^ d' := Nat.pow_pos (by omega)
        omega
      have hval : N < 2 ^ 50 * 10 ^ (d' + 1) := by
        have : 2 ^ 50 * 10 ≤ 2 ^ 50 * 10 ^ (d' + 1) := Nat.mul_le_mul_left _ h10
        omega
      obtain ⟨s, hs0, he, hq52, hm, hex, hup⟩ := rn53_small_value N (10 ^ (d' + 1)) hNpos hD hval
      rw [he]
      -- k < s: otherwise the quotient could not reach 2^52
      have hks : k < s := by
        apply Classical.byContradiction
        intro hc
        have hle : s ≤ k := by omega
        have h2 : N * 2 ^ s ≤ N * 2 ^ k := Nat.mul_le_mul_left _ (Nat.pow_le_pow_right (by omega) hle)
        rw [hmult] at hfit
        have h3 : N * 2 ^ s / 10 ^ (d' + 1) ≤ N * 2 ^ s / 10 := Nat.div_le_div_left h10 (by omega)
        have h4 : N * 2 ^ s / 10 ≤ N * 2 ^ k / 10 := Nat.div_le_div_right h2
        omega
      have hfs : floorScaled (rn53 N (10 ^ (d' + 1))).1 (-(s : Int) + (k : Int)) = (rn53 N (10 ^ (d' + 1))).1 / 2 ^ (s - k) := by
        unfold floorScaled
        have hneg : ¬ (-(s : Int) + (k : Int) ≥ 0) := by omega
        have htn : (-(-(s : Int) + (k : Int))).toNat = s - k := by omega
        simp only [hneg, if_false, htn]
      rw [hfs]
      have hsplit2 : N * 2 ^ s = N * mult * 2 ^ (s - k) := by
        rw [hmult, Nat.mul_assoc, ← Nat.pow_add]; congr 2; omega
      rw [hsplit2] at hq52 hm hex hup
      have hPgt : 10 ^ (d' + 1) < 2 * 2 ^ (s - k) := by
        have h1 : N * mult * 2 ^ (s - k) / 10 ^ (d' + 1) * 10 ^ (d' + 1) ≤ N * mult * 2 ^ (s - k) := Nat.div_mul_le_self _ _
        have h2 : 2 ^ 52 * 10 ^ (d' + 1) ≤ N * mult * 2 ^ (s - k) := Nat.le_trans (Nat.mul_le_mul_right _ hq52) h1
        have h3 : N * mult * 2 ^ (s - k) < 2 ^ 53 * 2 ^ (s - k) := Nat.mul_lt_mul_of_pos_right hfit (Nat.two_pow_pos _)
        have h4 : 2 ^ 52 * 10 ^ (d' + 1) < 2 ^ 52 * (2 * 2 ^ (s - k)) := by
          have : 2 ^ 53 * 2 ^ (s - k) = 2 ^ 52 * (2 * 2 ^ (s - k)) := by
            rw [← Nat.mul_assoc]
          omega
        exact Nat.lt_of_mul_lt_mul_left h4
      rw [frac_floor (N * mult) (10 ^ (d' + 1)) (2 ^ (s - k)) _ hD hPgt hm hex hup]
      congr 1
      unfold u64Max
      omega

/-- unknown suffix ⇒ rejected -/
theorem parse_rejects_unknown_suffix (text : List Char)
    (h : lookupSuffix ((text.dropWhile isNumCh).map lowerAscii) Consts.suffixTable = none) :
    ∃ e, parseBytes text = .error e := by
  simp only [parseBytes]
  cases parseDecimal (text.takeWhile isNumCh) with
  | none => exact ⟨_, rfl⟩
  | some p => simp only [h]; exact ⟨_, rfl⟩

/-- malformed number ⇒ rejected, whatever follows -/
theorem parse_rejects_bad_number (text : List Char)
    (h : parseDecimal (text.takeWhile isNumCh) = none) :
    parseBytes text = .error .number := by
  simp only [parseBytes, h]

/-- no digit at all (empty, or only dots) is a malformed number -/
theorem no_digit_is_malformed (ds : List Char) (h : ds.all (· == '.') = true) :
    parseDecimal ds = none := by
  unfold parseDecimal
  cases ds with
  | nil => simp
  | cons c t =>
    simp only [List.all_cons, Bool.and_eq_true, beq_iff_eq] at h
    obtain ⟨hc, ht⟩ := h
    subst hc
    have hnd : isDigitCh '.' = false := by decide
    simp only [List.takeWhile, List.dropWhile, hnd]
    cases t with
    | nil => simp
    | cons d t' =>
      simp only [List.all_cons, Bool.and_eq_true, beq_iff_eq] at ht
      obtain ⟨hd, _⟩ := ht
      subst hd
      simp [hnd]

/-- two dots is a malformed number -/
theorem two_dots_is_malformed (a b c : List Char) (ha : a.all isDigitCh = true) :
    parseDecimal (a ++ '.' :: (b ++ '.' :: c)) = none := by
  have hnd : isDigitCh '.' = false := by decide
  obtain ⟨h1, h2⟩ := takeWhile_all isDigitCh a ('.' :: (b ++ '.' :: c)) ha (by simp [hnd])
  unfold parseDecimal
  rw [h1, h2]
  simp [hnd]

/-- **Printed unit**: the largest binary unit not exceeding the value, judged on
the value rounded to double precision. -/
theorem display_unit_largest (n : Nat) (hn : n < 2 ^ 64) (h1 : 1 ≤ round53 n) (hb : round53 n < 2 ^ 70) :
    1024 ^ (shown n).unit ≤ round53 n ∧ round53 n < 1024 ^ ((shown n).unit + 1) := by
  have hs : Consts.displayStep = 1024 := display_consts.1
  have := unitIndexAux_spec 1024 (by omega) 7 (round53 n) 0 (Or.inr rfl) (by
    have : (1024:Nat) ^ (0 + 7) = 2 ^ 70 := by decide
    omega)
  simp only [shown, unitIndex, hs]
  obtain ⟨h2, h3⟩ := this
  refine ⟨?_, h3⟩
  rcases h2 with h2 | h2
  · exact h2
  · rw [h2]; simpa using h1

/-- **Error bound**: the printed two-decimal value differs from the (double
rounded) value by at most half a hundredth of the printed unit. -/
theorem display_error_bound (n : Nat) :
    let s := shown n
    let unit := 1024 ^ s.unit
    2 * (s.hundredths * unit - round53 n * 100) ≤ unit ∧ 2 * (round53 n * 100 - s.hundredths * unit) ≤ unit := by
  have hs : Consts.displayStep = 1024 := display_consts.1
  simp only [shown, hs]
  exact hundredths_bound _ _ (Nat.pow_pos (by omega))

/-- below 2^53 the double rounding is the identity, so the bound is about the true value -/
theorem display_exact_below_2_53 (n : Nat) (h : n < 2 ^ 53) : round53 n = n := round53_small n h

/-- **`byte` only for exactly 1** -/
theorem display_byte_iff_one (n : Nat) (h : n < 2 ^ 53) : (shown n).singular = true ↔ n = 1 := by
  have hs : Consts.displayStep = 1024 := display_consts.1
  simp only [shown, round53_small n h, Bool.and_eq_true, beq_iff_eq]
  constructor
  · intro h; exact h.2
  · intro h; subst h; decide +kernel

/-- **At most two decimals, no trailing zeros, no trailing dot** -/
theorem frac_shape (f : Nat) :
    let cs := fracChars (f % 100)
    cs.length ≤ 3 ∧ cs.getLast? ≠ some '0' ∧ cs.getLast? ≠ some '.' ∧ (cs = [] ↔ f % 100 = 0) := by
  have hf : f % 100 < 100 := Nat.mod_lt _ (by omega)
  generalize f % 100 = g at hf
  simp only [fracChars]
  split
  · simp_all
  · rename_i h0
    split
    · rename_i h10
      have : g / 10 % 10 ≠ 0 := by omega
      refine ⟨by simp, ?_, ?_, by simp [h0]⟩
      · simp only [List.getLast?, List.getLast, ne_eq, Option.some.injEq]
        intro hc
        have h3 := digitCh_val (g / 10 % 10) (Nat.mod_lt _ (by omega))
        unfold digitCh at hc h3
        simp only [Nat.mod_mod] at h3
        rw [hc] at h3; simp at h3; omega
      · simp only [List.getLast?, List.getLast, ne_eq, Option.some.injEq]
        intro hc
        have := digitCh_isDigit (g / 10)
        rw [hc] at this; revert this; decide
    · rename_i h10
      refine ⟨by simp, ?_, ?_, by simp [h0]⟩
      · simp only [List.getLast?, List.getLast, ne_eq, Option.some.injEq]
        intro hc
        have h3 := digitCh_val (g % 10) (Nat.mod_lt _ (by omega))
        unfold digitCh at hc h3
        rw [hc] at h3; simp at h3; omega
      · simp only [List.getLast?, List.getLast, ne_eq, Option.some.injEq]
        intro hc
        have := digitCh_isDigit (g % 10)
        rw [hc] at this; revert this; decide

/-! ## Non-vacuity / concrete instances -/
example : parseBytes "12KiB".toList = .ok 12288 := by decide +kernel
example : parseBytes "1.5mib".toList = .ok 1572864 := by decide +kernel
example : parseBytes "100foo".toList = .error .suffix := by decide +kernel
example : parseBytes "1.0.0foo".toList = .error .number := by decide +kernel
example : natChars' 12 ++ ['K','i','B'] = "12KiB".toList := by decide +kernel
example : displayBytes 1572864 = "1.5 MiB".toList := by decide +kernel
example : displayBytes 1 = "1 byte".toList := by decide +kernel

/-- `1.5KiB` is 1536 bytes, `0.3kib` is ⌊307.2⌋ = 307 (model evaluation, kernel-checked) -/
example : parseBytes "1.5KiB".toList = .ok 1536 ∧ parseBytes "0.3kib".toList = .ok 307 ∧ parseBytes "2.999999mib".toList = .ok 3145726 := by
  decide +kernel

end Imdlv.C16
