import Imdlv.Generated.Consts
import Imdlv.Lemmas.Magnet
/-!
# C10 — magnet links carry the infohash, name, trackers, peers and selection faithfully

For every name, tracker URL text, peer text (arbitrary byte strings) and index
list. The encoder is the repaired one (`escape` applied to every value).
-/
namespace Imdlv.C10
open Imdlv Imdlv.Magnet

theorem lit_plain : Plain (b "xt") ∧ Plain (b "dn") ∧ Plain (b "tr") ∧ Plain (b "x.pe") ∧ Plain (b "so") ∧
    Plain (b "urn:btih:") := by
  refine ⟨?_, ?_, ?_, ?_, ?_, ?_⟩ <;> intro x hx <;> revert x <;> decide +kernel

theorem lit_no_eq : (∀ x ∈ b "xt", x ≠ 61) ∧ (∀ x ∈ b "dn", x ≠ 61) ∧ (∀ x ∈ b "tr", x ≠ 61) ∧
    (∀ x ∈ b "x.pe", x ≠ 61) ∧ (∀ x ∈ b "so", x ≠ 61) := by
  refine ⟨?_, ?_, ?_, ?_, ?_⟩ <;> decide +kernel

theorem lit_keep : (∀ x ∈ b "xt", keepLiteralN x.toNat = true) ∧ (∀ x ∈ b "dn", keepLiteralN x.toNat = true) ∧
    (∀ x ∈ b "tr", keepLiteralN x.toNat = true) ∧ (∀ x ∈ b "x.pe", keepLiteralN x.toNat = true) ∧
    (∀ x ∈ b "so", keepLiteralN x.toNat = true) ∧ (∀ x ∈ b "urn:btih:", keepLiteralN x.toNat = true) := by
  refine ⟨?_, ?_, ?_, ?_, ?_, ?_⟩ <;> decide +kernel

/-- every byte of the assembled query is a literal-safe byte or `%` -/
theorem segments_ok (l : Link) : ∀ kv ∈ segments l,
    (∀ x ∈ kv.1, keepLiteralN x.toNat = true) ∧ (∀ x ∈ kv.2, OkByte x) := by
  obtain ⟨k1, k2, k3, k4, k5, k6⟩ := lit_keep
  have lift : ∀ (s : Bytes), (∀ x ∈ s, keepLiteralN x.toNat = true) → ∀ x ∈ s, OkByte x := by
    intro s h x hx; simp [OkByte, h x hx]
  intro kv hkv
  simp only [segments, List.mem_append, List.mem_singleton, List.mem_map] at hkv
  rcases hkv with (((rfl | hkv) | ⟨t, _, rfl⟩) | ⟨p, _, rfl⟩) | hkv
  · refine ⟨k1, ?_⟩
    intro x hx
    simp only [List.mem_append] at hx
    rcases hx with hx | hx
    · exact lift _ k6 x hx
    · exact lift _ (hexLower_ok _) x hx
  · cases hn : l.name with
    | none => simp [hn] at hkv
    | some n =>
      simp only [hn, List.mem_singleton] at hkv
      subst hkv
      exact ⟨k2, escape_ok n⟩
  · exact ⟨k3, escape_ok t⟩
  · exact ⟨k4, escape_ok p⟩
  · by_cases he : l.indices.isEmpty = true
    · simp [he] at hkv
    · simp only [he, Bool.false_eq_true, if_false, List.mem_singleton] at hkv
      subst hkv
      refine ⟨k5, lift _ (commaJoin_ok _ ?_)⟩
      intro s hs
      simp only [List.mem_map] at hs
      obtain ⟨n, _, rfl⟩ := hs
      exact natDigits_ok n

/-- the url crate's query pass changes nothing: what `to_url` assembles is what is printed -/
theorem url_pass_identity (l : Link) : toUrl l = b "magnet:?" ++ toQuery l := by
  unfold toUrl
  congr 1
  apply urlQueryPass_stable
  suffices ∀ (segs : List (Bytes × Bytes)), (∀ kv ∈ segs, (∀ x ∈ kv.1, keepLiteralN x.toNat = true) ∧ (∀ x ∈ kv.2, OkByte x)) →
      ∀ x ∈ joinAmp (segs.map fun kv => kv.1 ++ [61] ++ kv.2), UrlStable x from this _ (segments_ok l)
  intro segs
  have seg_ok : ∀ kv : Bytes × Bytes, ((∀ x ∈ kv.1, keepLiteralN x.toNat = true) ∧ (∀ x ∈ kv.2, OkByte x)) →
      ∀ x ∈ kv.1 ++ [61] ++ kv.2, UrlStable x := by
    intro kv h x hx
    simp only [List.append_assoc, List.mem_append, List.mem_singleton] at hx
    rcases hx with hx | rfl | hx
    · exact okByte_stable x (by simp [OkByte, h.1 x hx])
    · exact ⟨by decide, by decide⟩
    · exact okByte_stable x (h.2 x hx)
  induction segs with
  | nil => intro _ x hx; simp [joinAmp] at hx
  | cons kv t ih =>
    intro h x hx
    cases t with
    | nil =>
      simp only [List.map_cons, List.map_nil, joinAmp] at hx
      exact seg_ok kv (h kv (by simp)) x hx
    | cons kv2 t2 =>
      simp only [List.map_cons, joinAmp] at hx
      rw [List.mem_append, List.mem_append] at hx
      rcases hx with (hx | hx) | hx
      · exact seg_ok kv (h kv (by simp)) x hx
      · simp only [List.mem_singleton] at hx; subst hx; exact ⟨by decide, by decide⟩
      · exact ih (fun y hy => h y (by simp [hy])) x (by simpa [List.map_cons] using hx)

/-- one segment decodes to its key and original value -/
theorem decode_segment (pa : Bool) (k raw orig : Bytes) (hk : Plain k) (hke : ∀ x ∈ k, x ≠ 61)
    (hv : pctDecode (if pa then plusToSpace raw else raw) = orig) :
    (let kv := splitFirstEq (k ++ [61] ++ raw)
     (pctDecode (if pa then plusToSpace kv.1 else kv.1), pctDecode (if pa then plusToSpace kv.2 else kv.2))) = (k, orig) := by
  have : k ++ [61] ++ raw = k ++ 61 :: raw := by simp
  simp only [this, splitFirstEq_key k raw hke, dec_plain pa k hk, hv]

/-- **A standard query-string parser decodes the printed link to exactly the
intended pairs** — with or without `+`-as-space, for all names, trackers, peers. -/
theorem link_decodes (pa : Bool) (l : Link) : stdParse pa (toQuery l) = expectedPairs l := by
  obtain ⟨p1, p2, p3, p4, p5, p6⟩ := lit_plain
  obtain ⟨e1, e2, e3, e4, e5⟩ := lit_no_eq
  unfold stdParse toQuery
  rw [splitOn_joinAmp]
  · -- map over segments
    rw [List.map_map]
    unfold segments expectedPairs
    simp only [List.map_append, List.map_cons, List.map_nil, List.map_map]
    have hxt : Plain (b "urn:btih:" ++ hexLower l.infohash) := by
      intro x hx
      simp only [List.mem_append] at hx
      rcases hx with hx | hx
      · exact p6 x hx
      · exact (keep_plain _ (hexLower_ok l.infohash)).1 x hx
    congr 1
    · congr 1
      · congr 1
        · congr 1
          · simp only [Function.comp]
            rw [decode_segment pa (b "xt") _ _ p1 e1 (dec_plain pa _ hxt)]
          · cases l.name with
            | none => rfl
            | some n =>
              simp only [List.map_cons, List.map_nil, Function.comp]
              rw [decode_segment pa (b "dn") _ n p2 e2 (dec_escape pa n)]
        · apply List.map_congr_left
          intro t _
          simp only [Function.comp]
          rw [decode_segment pa (b "tr") _ t p3 e3 (dec_escape pa t)]
      · apply List.map_congr_left
        intro p _
        simp only [Function.comp]
        rw [decode_segment pa (b "x.pe") _ p p4 e4 (dec_escape pa p)]
    · by_cases he : l.indices.isEmpty = true
      · simp [he]
      · simp only [he, Bool.false_eq_true, if_false, List.map_cons, List.map_nil, Function.comp]
        have hso : Plain (commaJoin (l.indices.map natDigits)) := by
          apply (keep_plain _ (commaJoin_ok _ ?_)).1
          intro s hs
          simp only [List.mem_map] at hs
          obtain ⟨n, _, rfl⟩ := hs
          exact natDigits_ok n
        rw [decode_segment pa (b "so") _ _ p5 e5 (dec_plain pa _ hso)]
  · simp [segments]
  · intro s hs x hx
    simp only [List.mem_map] at hs
    obtain ⟨kv, hkv, rfl⟩ := hs
    obtain ⟨hk, hv⟩ := segments_ok l kv hkv
    simp only [List.append_assoc, List.mem_append, List.mem_singleton] at hx
    rcases hx with hx | rfl | hx
    · exact (keep_plain _ hk).2 x hx
    · decide
    · exact (okByte_ne x (hv x hx)).1

/-! ## imdl's own parser -/

/-- **The parser accepts only links with a 40-hex `urn:btih` topic**, and the
infohash it returns is that topic's value. -/
theorem accepts_only_btih40 (pairs : List (Bytes × Bytes)) (ih : Bytes) (h : findTopic pairs = .ok ih) :
    ∃ v, (b "xt", v) ∈ pairs ∧ v.take 9 = b "urn:btih:" ∧ (v.drop 9).length = 40 ∧ unhex40 (v.drop 9) = some ih := by
  induction pairs with
  | nil => simp [findTopic] at h
  | cons kv t ihyp =>
    obtain ⟨k, v⟩ := kv
    unfold findTopic at h
    split at h
    · rename_i hc
      dsimp only at h
      split at h
      · cases h
      · rename_i hlen
        cases hu : unhex40 (List.drop 9 v) with
        | none => simp [hu] at h
        | some bytes =>
          simp only [hu, Except.ok.injEq] at h
          subst h
          exact ⟨v, by simp [hc.1], hc.2, by simpa using hlen, hu⟩
    · obtain ⟨v', hm, rest⟩ := ihyp h
      exact ⟨v', by simp [hm], rest⟩

theorem rejects_without_topic (urlOk peerOk : Bytes → Bool) (pairs : List (Bytes × Bytes))
    (h : ∀ v, (b "xt", v) ∈ pairs → v.take 9 ≠ b "urn:btih:") :
    parsePairs urlOk peerOk pairs = .error .topicMissing := by
  have : findTopic pairs = .error .topicMissing := by
    induction pairs with
    | nil => rfl
    | cons kv t ih =>
      obtain ⟨k, v⟩ := kv
      unfold findTopic
      split
      · rename_i hc
        exact absurd hc.2 (h v (by simp [hc.1]))
      · exact ih (fun v' hv' => h v' (by simp [hv']))
  simp [parsePairs, this]

/-! ## selection indices and tracker list -/

theorem insertIdx_sorted (x : Nat) (l : List Nat) (h : l.Pairwise (· < ·)) : (insertIdx x l).Pairwise (· < ·) := by
  induction l with
  | nil => simp [insertIdx]
  | cons y t ih =>
    simp only [List.pairwise_cons] at h
    unfold insertIdx
    split
    · rename_i hlt
      simp only [List.pairwise_cons, List.mem_cons]
      refine ⟨?_, h.1, h.2⟩
      intro a ha
      rcases ha with rfl | ha
      · exact hlt
      · exact Nat.lt_trans hlt (h.1 a ha)
    · split
      · simpa [List.pairwise_cons] using h
      · rename_i hnlt hne
        simp only [List.pairwise_cons]
        refine ⟨?_, ih h.2⟩
        intro a ha
        have : a = x ∨ a ∈ t := by
          clear ih h
          induction t with
          | nil => simp [insertIdx] at ha; exact Or.inl ha
          | cons z t' iht =>
            unfold insertIdx at ha
            split at ha
            · simp only [List.mem_cons] at ha
              rcases ha with rfl | rfl | ha
              · exact Or.inl rfl
              · exact Or.inr (by simp)
              · exact Or.inr (by simp [ha])
            · split at ha
              · exact Or.inr ha
              · simp only [List.mem_cons] at ha
                rcases ha with rfl | ha
                · exact Or.inr (by simp)
                · rcases iht ha with h' | h'
                  · exact Or.inl h'
                  · exact Or.inr (by simp [h'])
        rcases this with rfl | hm
        · omega
        · exact h.1 a hm

theorem mem_insertIdx (x a : Nat) (l : List Nat) : a ∈ insertIdx x l ↔ a = x ∨ a ∈ l := by
  induction l with
  | nil => simp [insertIdx]
  | cons y t ih =>
    unfold insertIdx
    split
    · simp
    · split
      · rename_i h; subst h; simp
      · simp only [List.mem_cons, ih]
        constructor
        · rintro (h | h | h) <;> simp [h]
        · rintro (h | h | h) <;> simp [h]

/-- **`so` is ascending and de-duplicated**, and holds exactly the given indices -/
theorem so_ascending_nodup (xs : List Nat) :
    (indexSet xs).Pairwise (· < ·) ∧ ∀ a, a ∈ indexSet xs ↔ a ∈ xs := by
  unfold indexSet
  suffices ∀ (s : List Nat), s.Pairwise (· < ·) →
      (xs.foldl (fun s x => insertIdx x s) s).Pairwise (· < ·) ∧
      ∀ a, a ∈ xs.foldl (fun s x => insertIdx x s) s ↔ a ∈ s ∨ a ∈ xs by
    simpa using this [] List.Pairwise.nil
  induction xs with
  | nil => intro s h; simp [h]
  | cons x t ih =>
    intro s h
    obtain ⟨h1, h2⟩ := ih (insertIdx x s) (insertIdx_sorted x s h)
    refine ⟨h1, ?_⟩
    intro a
    simp only [List.foldl_cons, h2, mem_insertIdx, List.mem_cons]
    constructor
    · rintro ((h | h) | h) <;> simp [h]
    · rintro (h | h | h) <;> simp [h]

theorem dedupFirst_props (l : List Bytes) : ∀ (seen : List Bytes),
    (dedupFirst seen l).Nodup ∧ (∀ a, a ∈ dedupFirst seen l ↔ a ∈ l ∧ a ∉ seen) ∧ (dedupFirst seen l).Sublist l := by
  induction l with
  | nil => intro seen; simp [dedupFirst]
  | cons x t ih =>
    intro seen
    unfold dedupFirst
    by_cases hs : seen.contains x = true
    · simp only [hs, if_true]
      obtain ⟨h1, h2, h3⟩ := ih seen
      refine ⟨h1, ?_, h3.cons _⟩
      intro a
      rw [h2]
      have hx : x ∈ seen := by simpa using hs
      constructor
      · rintro ⟨ha, hn⟩; exact ⟨by simp [ha], hn⟩
      · rintro ⟨ha, hn⟩
        simp only [List.mem_cons] at ha
        rcases ha with rfl | ha
        · exact absurd hx hn
        · exact ⟨ha, hn⟩
    · simp only [hs, Bool.false_eq_true, if_false]
      obtain ⟨h1, h2, h3⟩ := ih (x :: seen)
      have hx : x ∉ seen := by simpa using hs
      refine ⟨?_, ?_, h3.cons_cons _⟩
      · simp only [List.nodup_cons]
        refine ⟨?_, h1⟩
        rw [h2]; simp
      · intro a
        simp only [List.mem_cons, h2]
        constructor
        · rintro (rfl | ⟨ha, hn⟩)
          · exact ⟨Or.inl rfl, hx⟩
          · exact ⟨Or.inr ha, fun h => hn (Or.inr h)⟩
        · rintro ⟨rfl | ha, hn⟩
          · exact Or.inl rfl
          · by_cases e : a = x
            · exact Or.inl e
            · exact Or.inr ⟨ha, by simp [e, hn]⟩

/-- **One `tr` per distinct tracker, in first-appearance order, announce first** -/
theorem trackers_dedup_order (announce : Option Bytes) (tiers : List (List Bytes)) :
    (trackers announce tiers).Nodup ∧
    (∀ a, a ∈ trackers announce tiers ↔ a ∈ announce.toList ++ tiers.flatten) ∧
    (trackers announce tiers).Sublist (announce.toList ++ tiers.flatten) ∧
    (∀ a, announce = some a → (trackers announce tiers).head? = some a) := by
  obtain ⟨h1, h2, h3⟩ := dedupFirst_props (announce.toList ++ tiers.flatten) []
  refine ⟨h1, ?_, h3, ?_⟩
  · intro a; rw [trackers, h2]; simp
  · intro a ha; subst ha; simp [trackers, dedupFirst]

/-! ## Non-vacuity: the name that broke the unrepaired encoder -/
def sampleLink : Link where
  infohash := List.replicate 20 0xab
  name := some (b "a&b=c+d e%41#f")
  trackers := [b "http://t/ann?x=1&y=2"]
  peers := [b "[::1]:80"]
  indices := [2, 4, 6]

example : stdParse false (toQuery sampleLink)
    = [(b "xt", b "urn:btih:abababababababababababababababababababab"), (b "dn", b "a&b=c+d e%41#f"),
       (b "tr", b "http://t/ann?x=1&y=2"), (b "x.pe", b "[::1]:80"), (b "so", b "2,4,6")] := by decide +kernel
example : toQuery sampleLink = b ("xt=urn:btih:abababababababababababababababababababab&dn=a%26b=c%2Bd%20e%2541%23f" ++
    "&tr=http://t/ann?x=1%26y=2&x.pe=[::1]:80&so=2,4,6") := by decide +kernel
example : indexSet [4, 6, 6, 2] = [2, 4, 6] := by decide +kernel
example : trackers (some (b "a")) [[b "b", b "a"], [b "c", b "b"]] = [b "a", b "b", b "c"] := by decide +kernel

/-! ## tie to the source: the literal set of `push_value` -/

/-- the bytes the source copies literally (extracted from `MagnetLink::push_value` on every run) are
exactly the model's — in particular none of `% & + #`, space or a control byte is among them -/
theorem keep_set_is_the_sources : ∀ n, n < 256 → (List.contains Consts.magnetKeep n) = Magnet.keepLiteralN n := by
  decide +kernel

end Imdlv.C10
