import Imdlv.Props.C06
/-!
# C06 (tree level) — the listing does not depend on the order in which directories are enumerated

`Props/C06.lean` proves order independence for any permutation of the *enumerated file list*. This
file closes the gap to the tree: if two trees differ only in the order of the entries inside their
directories, at any depth (`EPerm`), the walk enumerates permutations of one another
(`walkEntries_perm`); and in a tree whose sibling names are distinct - which every file system
guarantees - the enumerated paths are distinct (`walk_paths_nodup`). Together: the same torrent file
list, whatever order `readdir` returns (`tree_order_independent`).
-/
namespace Imdlv.C06
open Imdlv Imdlv.Walker

/-- the same entries in another order, at this level or inside any sub-directory -/
inductive EPerm : Entries → Entries → Prop
  | refl (es : Entries) : EPerm es es
  | swap (a : Bytes) (x : Node) (b : Bytes) (y : Node) (t : Entries) :
      EPerm (.cons a x (.cons b y t)) (.cons b y (.cons a x t))
  | tail (a : Bytes) (x : Node) {t t' : Entries} : EPerm t t' → EPerm (.cons a x t) (.cons a x t')
  | inDir (a : Bytes) {es es' : Entries} (t : Entries) : EPerm es es' →
      EPerm (.cons a (.dir es) t) (.cons a (.dir es') t)
  | inLink (a : Bytes) {es es' : Entries} (t : Entries) : EPerm es es' →
      EPerm (.cons a (.linkDir es) t) (.cons a (.linkDir es') t)
  | trans {a b c : Entries} : EPerm a b → EPerm b c → EPerm a c

/-- reordering directory entries only permutes what the walk finds -/
theorem walkEntries_perm {es es' : Entries} (h : EPerm es es') :
    ∀ (fl : Flags) (pre : List Bytes), (walkEntries fl pre es).Perm (walkEntries fl pre es') := by
  induction h with
  | refl es => intro fl pre; exact List.Perm.refl _
  | swap a x b y t =>
    intro fl pre
    simp only [walkEntries]
    rw [← List.append_assoc, ← List.append_assoc]
    exact List.Perm.append_right _ List.perm_append_comm
  | tail a x _ ih =>
    intro fl pre
    simp only [walkEntries]
    exact List.Perm.append_left _ (ih fl pre)
  | inDir a t _ ih =>
    intro fl pre
    simp only [walkEntries, walkNode]
    apply List.Perm.append_right
    split
    · exact List.Perm.refl _
    · exact ih fl _
  | inLink a t _ ih =>
    intro fl pre
    simp only [walkEntries, walkNode]
    apply List.Perm.append_right
    split
    · exact List.Perm.refl _
    · split
      · exact ih fl _
      · exact List.Perm.refl _
  | trans _ _ ih1 ih2 => intro fl pre; exact (ih1 fl pre).trans (ih2 fl pre)

def names : Entries → List Bytes
  | .nil => []
  | .cons n _ t => n :: names t

mutual
/-- sibling names are distinct, at every depth -/
def nodeOk : Node → Bool
  | .dir es => entriesOk es
  | .linkDir es => entriesOk es
  | _ => true
def entriesOk : Entries → Bool
  | .nil => true
  | .cons n x t => !(names t).contains n && nodeOk x && entriesOk t
end

mutual
theorem walkNode_prefix (fl : Flags) (path : List Bytes) :
    (n : Node) → ∀ e ∈ walkNode fl path n, ∃ suffix, e.path = path ++ suffix
  | .file s => by
    intro e he; simp only [walkNode, List.mem_singleton] at he; subst he; exact ⟨[], by simp⟩
  | .dir es => by
    intro e he; simp only [walkNode] at he
    obtain ⟨n, _, suf, h⟩ := walkEntries_prefix fl path es e he
    exact ⟨n :: suf, h⟩
  | .linkFile s => by
    intro e he; simp only [walkNode] at he
    split at he
    · simp only [List.mem_singleton] at he; subst he; exact ⟨[], by simp⟩
    · simp at he
  | .linkDir es => by
    intro e he; simp only [walkNode] at he
    split at he
    · obtain ⟨n, _, suf, h⟩ := walkEntries_prefix fl path es e he
      exact ⟨n :: suf, h⟩
    · simp at he
  | .other => by intro e he; simp [walkNode] at he
/-- every enumerated path goes through one of the directory's own entries -/
theorem walkEntries_prefix (fl : Flags) (pre : List Bytes) :
    (es : Entries) → ∀ e ∈ walkEntries fl pre es, ∃ n ∈ names es, ∃ suffix, e.path = pre ++ n :: suffix
  | .nil => by intro e he; simp [walkEntries] at he
  | .cons name n t => by
    intro e he
    simp only [walkEntries, List.mem_append] at he
    rcases he with he | he
    · split at he
      · simp at he
      · obtain ⟨suf, h⟩ := walkNode_prefix fl (pre ++ [name]) n e he
        exact ⟨name, by simp [names], suf, by simp [h]⟩
    · obtain ⟨n', hn', suf, h⟩ := walkEntries_prefix fl pre t e he
      exact ⟨n', by simp [names, hn'], suf, h⟩
end

mutual
theorem walkNode_nodup (fl : Flags) (path : List Bytes) :
    (n : Node) → nodeOk n = true → ((walkNode fl path n).map (·.path)).Nodup
  | .file s, _ => by simp [walkNode]
  | .dir es, h => by
    simp only [walkNode]; exact walkEntries_nodup fl path es (by simpa [nodeOk] using h)
  | .linkFile s, _ => by simp only [walkNode]; split <;> simp
  | .linkDir es, h => by
    simp only [walkNode]; split
    · exact walkEntries_nodup fl path es (by simpa [nodeOk] using h)
    · simp
  | .other, _ => by simp [walkNode]
/-- **Distinct sibling names give distinct paths** -/
theorem walkEntries_nodup (fl : Flags) (pre : List Bytes) :
    (es : Entries) → entriesOk es = true → ((walkEntries fl pre es).map (·.path)).Nodup
  | .nil, _ => by simp [walkEntries]
  | .cons name n t, h => by
    simp only [entriesOk, Bool.and_eq_true, Bool.not_eq_true', ] at h
    obtain ⟨⟨hname, hn⟩, ht⟩ := h
    simp only [walkEntries, List.map_append]
    rw [List.nodup_append]
    refine ⟨?_, walkEntries_nodup fl pre t ht, ?_⟩
    · split
      · simp
      · exact walkNode_nodup fl (pre ++ [name]) n hn
    · intro p hp q hq hpq
      subst hpq
      simp only [List.mem_map] at hp hq
      obtain ⟨e1, he1, rfl⟩ := hp
      obtain ⟨e2, he2, h2⟩ := hq
      split at he1
      · simp at he1
      · obtain ⟨suf1, h1⟩ := walkNode_prefix fl (pre ++ [name]) n e1 he1
        obtain ⟨n', hn', suf2, h3⟩ := walkEntries_prefix fl pre t e2 he2
        rw [h1, List.append_assoc] at h2
        rw [h3] at h2
        have := List.append_cancel_left h2
        simp only [List.singleton_append, List.cons.injEq] at this
        rw [this.1] at hn'
        have hc : (names t).contains name = true := by simpa using hn'
        rw [hname] at hc; cases hc
end

/-- **The listing is independent of the directory enumeration order**: two trees that hold the same
entries in different orders (at any depth), sibling names distinct, yield the identical file list
under every flag set, glob list and sort specification. -/
theorem tree_order_independent {π : Type} (fl : Flags) (m : π → List Bytes → Bool) (pats : List (Pattern π))
    (specs : List SortSpec) (es es' : Entries) (hperm : EPerm es es') (hok : entriesOk es = true) :
    listed fl m pats specs (walkEntries fl [] es) = listed fl m pats specs (walkEntries fl [] es') :=
  order_independent fl m pats specs _ _ (walkEntries_perm hperm fl []) (walkEntries_nodup fl [] es hok)

/-- and so is the whole outcome of `Walker::files` for a directory root -/
theorem files_order_independent {π : Type} (fl : Flags) (m : π → List Bytes → Bool) (pats : List (Pattern π))
    (specs : List SortSpec) (es es' : Entries) (hperm : EPerm es es') (hok : entriesOk es = true) :
    files fl m pats specs (.dir es) = files fl m pats specs (.dir es') := by
  simp only [files]; rw [tree_order_independent fl m pats specs es es' hperm hok]

/-! non-vacuity: `{b/{y,x}, a}` against `{a, b/{x,y}}` -/
section nonvacuous
def t1 : Entries := .cons [98] (.dir (.cons [121] (.file 2) (.cons [120] (.file 1) .nil))) (.cons [97] (.file 3) .nil)
def t2 : Entries := .cons [97] (.file 3) (.cons [98] (.dir (.cons [120] (.file 1) (.cons [121] (.file 2) .nil))) .nil)
example : EPerm t1 t2 :=
  .trans (.inDir [98] _ (.swap [121] (.file 2) [120] (.file 1) .nil)) (.swap _ _ _ _ .nil)
example : entriesOk t1 = true := by decide
example : walkEntries ⟨false, false, false⟩ [] t1 ≠ walkEntries ⟨false, false, false⟩ [] t2 := by decide
end nonvacuous

end Imdlv.C06
