import Imdlv.Lemmas.Paths
/-!
# C02 (default locations) — `verify` without `--content` looks exactly where `create` without
`--output` read its input

`create --input I` (no `--name`, no `--output`) names the torrent after the last component of the
*resolved* input and writes it to `I.join("..").lexiclean().join("<name>.torrent")`;
`verify --input T` (no `--content`, no `--base-directory`) looks for the content at
`T.join("..").join(<name>).lexiclean()`. Both are then resolved against the working directory.

`default_locations_inverse`: for every working directory (`/` followed by normal components), every
non-empty input path, relative or absolute, with any mixture of `.`, `..` and names - as long as its
resolution has a file name at all (otherwise `create` refuses) - the directory `verify` ends up in is
the directory `create` hashed. This is the path algebra behind the sentence "a torrent just created
from a file or directory verifies against it" for the default locations.
-/
namespace Imdlv.C02
open Imdlv Imdlv.Paths

/-- the input path as `create` accepts it: relative, or `/` followed by a relative path -/
def InputShape (input : CPath) : Prop := Rel input ∨ ∃ r, input = PC.root :: r ∧ Rel r

theorem head_normal_of_fileName {st : CPath} {n : Bytes} (h : fileName st.reverse = some n) :
    ∃ rest, st = PC.normal n :: rest := by
  unfold fileName at h
  rw [getLast?_reverse_eq_head?] at h
  cases st with
  | nil => simp at h
  | cons c rest =>
    cases c <;> simp at h
    exact ⟨rest, by rw [h]⟩

/-- the default content location is the default torrent location's inverse (relative inputs) -/
theorem default_locations_inverse_rel (cs : List Bytes) (input : CPath) (n nt : Bytes)
    (hrel : Rel input)
    (hfn : fileName (resolve (PC.root :: nm cs) input) = some n) :
    resolve (PC.root :: nm cs)
        (contentRoot none none (some (torrentPath input [PC.normal nt])) [PC.normal n])
      = resolve (PC.root :: nm cs) input := by
  rw [resolve_rel cs input hrel] at hfn ⊢
  obtain ⟨rest, hrun⟩ := head_normal_of_fileName hfn
  have hj : joinC input [PC.parent] = input ++ [PC.parent] := joinC_single_parent input
  have hrelP : Rel (input ++ [PC.parent]) := by
    rw [rel_append]; exact ⟨hrel, by intro c hc; simp at hc; subst hc; intro h; cases h⟩
  have hrelL : Rel (lexiclean (input ++ [PC.parent])) := rel_lexiclean hrelP
  simp only [contentRoot, torrentPath, hj, joinC_single_normal, joinC_single_parent]
  have hrelX : Rel (lexiclean (input ++ [PC.parent]) ++ [PC.normal nt] ++ [PC.parent] ++ [PC.normal n]) := by
    rw [rel_append, rel_append, rel_append]
    refine ⟨⟨⟨hrelL, ?_⟩, ?_⟩, ?_⟩ <;> (intro c hc; simp at hc; subst hc; intro h; cases h)
  rw [resolve_rel cs _ (rel_lexiclean hrelX), run_abs_lexiclean _ hrelX]
  rw [run_append, run_append, run_append, run_abs_lexiclean _ hrelP, run_append, hrun]
  simp

/-- the same for absolute inputs -/
theorem default_locations_inverse_abs (cwd : CPath) (r : CPath) (n nt : Bytes) (hrel : Rel r)
    (hfn : fileName (resolve cwd (PC.root :: r)) = some n) :
    resolve cwd
        (contentRoot none none (some (torrentPath (PC.root :: r) [PC.normal nt])) [PC.normal n])
      = resolve cwd (PC.root :: r) := by
  rw [resolve_abs] at hfn ⊢
  by_cases hr : r = []
  · simp [hr, fileName] at hfn
  rw [if_neg hr] at hfn ⊢
  obtain ⟨rest, hrun⟩ := head_normal_of_fileName hfn
  -- the shape of the stack: names on top of the root
  obtain ⟨ns, k, _, h2⟩ := run_rel_abs r hrel [] 0
  have hshape := h2 []
  simp only [List.drop_nil, List.append_nil] at hshape
  have h0 : absSt ([] : List Bytes) = [PC.root] := rfl
  rw [hshape] at hrun
  cases ns with
  | nil => simp [absSt, nm] at hrun
  | cons n0 ns1 =>
    have hn0 : n0 = n ∧ absSt ns1 = rest := by
      simp only [absSt, nm, List.map_cons, List.cons_append, List.cons.injEq, PC.normal.injEq] at hrun
      exact ⟨hrun.1, by simp [absSt, nm, hrun.2]⟩
    obtain ⟨rfl, hrest⟩ := hn0
    -- the torrent's directory
    have hL : lexiclean (PC.root :: r ++ [PC.parent]) = (absSt ns1).reverse := by
      unfold lexiclean
      have hlen : ¬ (PC.root :: r ++ [PC.parent]).length ≤ 1 := by simp
      rw [if_neg hlen]
      show (run [] (PC.root :: (r ++ [PC.parent]))).reverse = _
      rw [run_cons, stepR_root, ← h0, run_append, hshape]
      rfl
    simp only [contentRoot, torrentPath, joinC_single_normal, joinC_single_parent]
    rw [hL]
    have hC : lexiclean ((absSt ns1).reverse ++ [PC.normal nt] ++ [PC.parent] ++ [PC.normal n0])
        = (absSt (n0 :: ns1)).reverse := by
      unfold lexiclean
      have hlen : ¬ ((absSt ns1).reverse ++ [PC.normal nt] ++ [PC.parent] ++ [PC.normal n0]).length ≤ 1 := by
        simp
      rw [if_neg hlen, run_append, run_append, run_append, run_nil_absSt_reverse]
      rfl
    rw [hC, absSt_reverse, resolve_abs]
    have hne : nm (n0 :: ns1).reverse ≠ [] := by simp [nm]
    rw [if_neg hne]
    have : run (absSt []) (nm (n0 :: ns1).reverse) = absSt (n0 :: ns1) := by
      rw [run_push_normals, List.reverse_reverse]; rfl
    rw [this, hshape]

/-- **Default locations are inverse to each other**: where `verify` looks by default is where
`create` read, for every working directory and every input path that has a file name. -/
theorem default_locations_inverse (cs : List Bytes) (input : CPath) (n nt : Bytes)
    (hne : input ≠ []) (hshape : InputShape input)
    (hfn : fileName (resolve (PC.root :: nm cs) input) = some n) :
    resolve (PC.root :: nm cs)
        (contentRoot none none (some (torrentPath input [PC.normal nt])) [PC.normal n])
      = resolve (PC.root :: nm cs) input := by
  rcases hshape with hrel | ⟨r, rfl, hrel⟩
  · exact default_locations_inverse_rel cs input n nt hrel hfn
  · exact default_locations_inverse_abs _ r n nt hrel hfn

/-- every path text has the shape the theorems ask for: `Path::components()` yields a root only in
front, and then no further root (nor `.`) -/
theorem comps_shape (p : Bytes) : InputShape (comps p) := by
  have hbody : Rel ((splitSlash p).filterMap segToPC) := by
    intro c hc
    simp only [List.mem_filterMap] at hc
    obtain ⟨seg, _, hseg⟩ := hc
    unfold segToPC at hseg
    split at hseg
    · cases hseg
    · split at hseg
      · cases hseg
      · split at hseg <;> (simp only [Option.some.injEq] at hseg; subst hseg; intro h; cases h)
  unfold comps
  simp only
  split
  · exact Or.inr ⟨_, rfl, hbody⟩
  · split
    · exact Or.inl (rel_cons.mpr ⟨(by intro h; cases h), hbody⟩)
    · exact Or.inl hbody

/-- the same for path *texts*: whatever is typed after `--input` -/
theorem default_locations_inverse_text (cs : List Bytes) (inputText n nt : Bytes)
    (hne : comps inputText ≠ [])
    (hfn : fileName (resolve (PC.root :: nm cs) (comps inputText)) = some n) :
    resolve (PC.root :: nm cs)
        (contentRoot none none (some (torrentPath (comps inputText) [PC.normal nt])) [PC.normal n])
      = resolve (PC.root :: nm cs) (comps inputText) :=
  default_locations_inverse cs (comps inputText) n nt hne (comps_shape inputText) hfn

/-- with the name `create` itself picks -/
theorem created_default_verifies_in_place (cs : List Bytes) (input out : CPath) (n : Bytes)
    (hne : input ≠ []) (hshape : InputShape input)
    (hfn : fileName (resolve (PC.root :: nm cs) input) = some n)
    (hout : createDefaultOutput (PC.root :: nm cs) input = some out) :
    resolve (PC.root :: nm cs) (contentRoot none none (some out) [PC.normal n])
      = resolve (PC.root :: nm cs) input := by
  unfold createDefaultOutput at hout
  rw [hfn] at hout
  simp only [Option.some.injEq] at hout
  subst hout
  exact default_locations_inverse cs input n _ hne hshape hfn

/-- the resolved location is a clean absolute path: `/` followed by names only -/
theorem resolve_clean (cs : List Bytes) (p : CPath) (hshape : InputShape p) :
    ∃ l, resolve (PC.root :: nm cs) p = PC.root :: nm l := by
  rcases hshape with hrel | ⟨r, rfl, hrel⟩
  · rw [resolve_rel cs p hrel]
    obtain ⟨ns, k, _, h2⟩ := run_rel_abs p hrel [] 0
    have := h2 cs.reverse
    simp only [List.nil_append, List.drop_zero] at this
    rw [this, absSt_reverse]; exact ⟨_, rfl⟩
  · rw [resolve_abs]
    by_cases hr : r = []
    · rw [if_pos hr]; exact ⟨[], rfl⟩
    · rw [if_neg hr]
      obtain ⟨ns, k, _, h2⟩ := run_rel_abs r hrel [] 0
      have := h2 []
      simp only [List.nil_append, List.drop_zero] at this
      rw [this, absSt_reverse]; exact ⟨_, rfl⟩

/-- resolving what has been resolved changes nothing (the code resolves the input twice, and the
walker is handed a resolved root: a second cleaning must not move it) -/
theorem resolve_idempotent (cs : List Bytes) (p : CPath) (hshape : InputShape p) :
    resolve (PC.root :: nm cs) (resolve (PC.root :: nm cs) p) = resolve (PC.root :: nm cs) p := by
  obtain ⟨l, hl⟩ := resolve_clean cs p hshape
  rw [hl, resolve_abs]
  by_cases h : nm l = []
  · rw [if_pos h, h]
  · rw [if_neg h, run_push_normals]
    have : (absSt ([] : List Bytes)) = [PC.root] := rfl
    rw [this]
    simp [nm, List.map_reverse]

/-! non-vacuity: `../b/./c` from `/w/x` resolves to `/w/b/c`, the torrent goes to `../b/c.torrent`,
and `verify` on that looks in `../b/c` -/
section nonvacuous
def cwdEx : List Bytes := [[119], [120]]
def inEx : CPath := [.parent, .normal [98], .cur, .normal [99]]
example : inEx ≠ [] ∧ fileName (resolve (PC.root :: nm cwdEx) inEx) = some [99] := by decide
example : resolve (PC.root :: nm cwdEx) inEx = [.root, .normal [119], .normal [98], .normal [99]] := by decide
example : createDefaultOutput (PC.root :: nm cwdEx) inEx
    = some [.parent, .normal [98], .normal ([99] ++ dotTorrent)] := by decide
example : contentRoot none none (some [.parent, .normal [98], .normal ([99] ++ dotTorrent)]) [.normal [99]]
    = [.parent, .normal [98], .normal [99]] := by decide
end nonvacuous

end Imdlv.C02
