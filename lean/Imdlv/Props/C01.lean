import Imdlv.Lemmas.Hasher
/-!
# C01 — piece hashes, lengths and MD5s match the content bytes

Property theorems only. `H` (SHA-1) and `H5` (MD5) are arbitrary functions:
the theorems identify *which bytes* are hashed; the digests are applied by the
real crates in the correspondence check.

Spec `S`: blocks = `chunks p (files joined in listed order)`; per file the
consumed bytes are the file's bytes (so its length and MD5 are exact).
-/
namespace Imdlv.C01
open Imdlv Imdlv.Hasher

/-- what the torrent's `pieces` string is, given the blocks hashed -/
def piecesOf {δ : Type} (H : Bytes → List δ) (blocks : List Bytes) : List δ :=
  (blocks.map H).flatten

/-- **Blocks.** For every piece length `p > 0`, every list of files and every
read schedule per file, the blocks hashed by the create-side hasher are the
consecutive `p`-byte blocks of the files' bytes joined in listed order. -/
theorem hashFiles_blocks (p : Nat) (hp : 0 < p) (fs : List (Bytes × List Nat)) :
    (hashFiles p fs).1 = chunks p (fs.map Prod.fst).flatten := by
  have h := (hashStreams_inv p hp fs St.init [] (inv_init p hp)).1
  simpa [hashFiles] using finish_eq_chunks p hp _ _ h

/-- **Per-file bytes.** What is fed to the per-file length counter and MD5
context is exactly the file's content, whatever the schedule. -/
theorem hashFiles_infos (p : Nat) (hp : 0 < p) (fs : List (Bytes × List Nat)) :
    (hashFiles p fs).2 = fs.map Prod.fst :=
  (hashStreams_inv p hp fs St.init [] (inv_init p hp)).2

/-- the `pieces` value and the listed lengths / MD5s, for any digest functions -/
theorem pieces_lengths_md5 {δ ε : Type} (H : Bytes → List δ) (H5 : Bytes → ε)
    (p : Nat) (hp : 0 < p) (fs : List (Bytes × List Nat)) :
    piecesOf H (hashFiles p fs).1 = piecesOf H (chunks p (fs.map Prod.fst).flatten) ∧
    (hashFiles p fs).2.map List.length = fs.map (fun f => f.1.length) ∧
    (hashFiles p fs).2.map H5 = fs.map (fun f => H5 f.1) := by
  rw [hashFiles_blocks p hp, hashFiles_infos p hp]
  simp [List.map_map, Function.comp_def]

/-- **Independence of read splitting**: two runs over the same file contents
under arbitrary different schedules give identical results. -/
theorem schedule_independent (p : Nat) (hp : 0 < p) (fs₁ fs₂ : List (Bytes × List Nat))
    (h : fs₁.map Prod.fst = fs₂.map Prod.fst) :
    hashFiles p fs₁ = hashFiles p fs₂ := by
  apply Prod.ext
  · rw [hashFiles_blocks p hp, hashFiles_blocks p hp, h]
  · rw [hashFiles_infos p hp, hashFiles_infos p hp, h]

/-- **Block count and the final block.** `⌊total/p⌋` full blocks followed by one
shorter block exactly when the total is not a multiple of `p`. -/
theorem block_profile (p : Nat) (hp : 0 < p) (fs : List (Bytes × List Nat)) :
    let total := ((fs.map Prod.fst).flatten).length
    (hashFiles p fs).1.map List.length =
      List.replicate (total / p) p ++ (if total % p = 0 then [] else [total % p]) := by
  simp only [hashFiles_blocks p hp]
  exact chunks_lengths p hp _

/-- **No block for empty content** (any number of empty files). -/
theorem empty_no_block (p : Nat) (hp : 0 < p) (fs : List (Bytes × List Nat))
    (h : (fs.map Prod.fst).flatten = []) : (hashFiles p fs).1 = [] := by
  rw [hashFiles_blocks p hp, h, chunks_nil]

/-- **Blocks rejoin to the content**: nothing is skipped, duplicated or reordered. -/
theorem blocks_flatten (p : Nat) (hp : 0 < p) (fs : List (Bytes × List Nat)) :
    (hashFiles p fs).1.flatten = (fs.map Prod.fst).flatten := by
  rw [hashFiles_blocks p hp, chunks_flatten p hp]

/-- **stdin = single file**: the same bytes on standard input give the same
blocks and the same consumed bytes as a single file, under any two schedules. -/
theorem stdin_eq_single_file (p : Nat) (hp : 0 < p) (d : Bytes) (s₁ s₂ : List Nat) :
    (hashStdin p d s₁).1 = (hashFiles p [(d, s₂)]).1 ∧
    [(hashStdin p d s₁).2] = (hashFiles p [(d, s₂)]).2 := by
  have h1 := readLoop_inv p hp St.init d s₁ [] (inv_init p hp)
  have e : (hashStdin p d s₁).1 = chunks p d := by
    simpa [hashStdin] using finish_eq_chunks p hp _ _ h1.1
  refine ⟨?_, ?_⟩
  · rw [e, hashFiles_blocks p hp]; simp
  · rw [hashFiles_infos p hp]; simp [hashStdin, h1.2]

/-! ## Non-vacuity: concrete runs with short reads crossing file and piece boundaries -/

example : (hashFiles 4 [([1,2,3], [1,1]), ([], []), ([4,5,6,7,8,9], [2,5,1])]).1
    = [[1,2,3,4],[5,6,7,8],[9]] := by decide +kernel
example : (hashFiles 4 [([1,2,3], [1,1]), ([], []), ([4,5,6,7,8,9], [2,5,1])]).2
    = [[1,2,3],[],[4,5,6,7,8,9]] := by decide +kernel
example : (hashFiles 3 [([1,2,3], [2]), ([4,5,6], [])]).1 = [[1,2,3],[4,5,6]] := by decide +kernel

end Imdlv.C01
