import Imdlv.Model.WriteAll
import Imdlv.Model.Streams
/-!
# C18 / C19 (short writes) — what is printed arrives whole, whatever the descriptor does

For every payload and every behaviour of the underlying descriptor (every script of short writes and
failures): if no `write` fails, the descriptor receives exactly the payload and `write_all` reports
success (`delivers`); an inactive stream (`--quiet`) passes nothing on and never fails
(`inactive_silent`); and whenever `write_all` reports success the whole payload was delivered, so a
truncated output is never reported as success (`success_means_complete`) - a failure is reported
(exit status 1) and what was delivered until then is a prefix of the payload
(`delivered_is_prefix`).
-/
namespace Imdlv.C18
open Imdlv.WriteAll

theorem accepted_bounds {e : Option Int} {len n : Nat} (hlen : 0 < len) (h : accepted e len = some n) :
    1 ≤ n ∧ n ≤ len := by
  unfold accepted at h
  cases e with
  | none => simp only [Option.some.injEq] at h; omega
  | some k =>
    simp only at h
    split at h
    · cases h
    · simp only [Option.some.injEq] at h; omega

/-- the loop invariant: delivered bytes are a prefix of the data; success means all of it -/
theorem loop_spec : ∀ (fuel : Nat) (data : Bytes) (script : List Int), data.length ≤ fuel →
    (loop fuel data script).2 <+: data ∧
    ((loop fuel data script).1 = true → (loop fuel data script).2 = data) ∧
    ((∀ k ∈ script, 0 ≤ k) → loop fuel data script = (true, data)) := by
  intro fuel
  induction fuel with
  | zero =>
    intro data script h
    have : data = [] := List.eq_nil_of_length_eq_zero (by omega)
    subst this
    simp [loop]
  | succ fuel ih =>
    intro data script h
    unfold loop
    by_cases he : data.isEmpty = true
    · have : data = [] := by simpa using he
      subst this
      simp
    · simp only [he, Bool.false_eq_true, if_false]
      have hpos : 0 < data.length := by
        cases data with
        | nil => simp at he
        | cons _ _ => simp
      cases hacc : accepted script.head? data.length with
      | none =>
        refine ⟨by simp, by simp, ?_⟩
        intro hall
        -- a script without negative entries never fails
        unfold accepted at hacc
        cases hh : script.head? with
        | none => rw [hh] at hacc; cases hacc
        | some k =>
          rw [hh] at hacc
          simp only at hacc
          have hk : 0 ≤ k := hall k (List.mem_of_mem_head? hh)
          split at hacc
          · omega
          · cases hacc
      | some n =>
        obtain ⟨h1, h2⟩ := accepted_bounds hpos hacc
        have hdrop : (data.drop n).length ≤ fuel := by simp only [List.length_drop]; omega
        obtain ⟨ihp, ihs, iha⟩ := ih (data.drop n) script.tail hdrop
        refine ⟨?_, ?_, ?_⟩
        · simp only
          have := List.prefix_append_right_inj (data.take n) |>.mpr ihp
          rwa [List.take_append_drop] at this
        · intro hs
          simp only at hs ⊢
          rw [ihs hs, List.take_append_drop]
        · intro hall
          have htail : ∀ k ∈ script.tail, 0 ≤ k := fun k hk => hall k (List.mem_of_mem_tail hk)
          simp only [iha htail, List.take_append_drop]

/-- **Whatever the pattern of short writes, the payload arrives whole** -/
theorem delivers (data : Bytes) (script : List Int) (h : ∀ k ∈ script, 0 ≤ k) :
    writeAll true data script = (true, data) := by
  unfold writeAll
  simp only [if_true]
  exact (loop_spec data.length data script (Nat.le_refl _)).2.2 h

/-- **An inactive stream is silent and never fails** (`--quiet` on standard error) -/
theorem inactive_silent (data : Bytes) (script : List Int) : writeAll false data script = (true, []) := rfl

/-- **Success is never claimed for a truncated output** -/
theorem success_means_complete (data : Bytes) (script : List Int)
    (h : (writeAll true data script).1 = true) : (writeAll true data script).2 = data := by
  unfold writeAll at h ⊢
  simp only [if_true] at h ⊢
  exact (loop_spec data.length data script (Nat.le_refl _)).2.1 h

/-- nothing but the payload reaches the descriptor, in order -/
theorem delivered_is_prefix (active : Bool) (data : Bytes) (script : List Int) :
    (writeAll active data script).2 <+: data := by
  unfold writeAll
  cases active with
  | false => simp
  | true => simp only [if_true]; exact (loop_spec data.length data script (Nat.le_refl _)).1

/-- the outcome does not depend on how the writes were cut, as long as none fails -/
theorem schedule_independent (data : Bytes) (s₁ s₂ : List Int) (h₁ : ∀ k ∈ s₁, 0 ≤ k) (h₂ : ∀ k ∈ s₂, 0 ≤ k) :
    writeAll true data s₁ = writeAll true data s₂ := by
  rw [delivers data s₁ h₁, delivers data s₂ h₂]

/-- **The two models composed**: what reaches a descriptor, under every pattern of short writes, is
exactly what the stream model says the stream emits - the painted texts of the writes addressed to
it when it is active, nothing when it is not (`--quiet` on standard error). -/
theorem descriptor_receives_emitted (c : Imdlv.Streams.Config) (t : Imdlv.Streams.Target)
    (ws : List Imdlv.Streams.Write) (script : List Int) (h : ∀ k ∈ script, 0 ≤ k) :
    let s := match t with | .out => Imdlv.Streams.outStream c | .err => Imdlv.Streams.errStream c
    let data := ((ws.filter (·.target == t)).map (Imdlv.Streams.paint s.style)).flatten
    writeAll s.active data script = (true, Imdlv.Streams.emitted c t ws) := by
  cases t with
  | out =>
    intro s data
    simp only [Imdlv.Streams.emitted]
    cases ha : (Imdlv.Streams.outStream c).active with
    | true =>
      simp only [if_true]; exact delivers data script h
    | false =>
      simp [writeAll]
  | err =>
    intro s data
    simp only [Imdlv.Streams.emitted]
    cases ha : (Imdlv.Streams.errStream c).active with
    | true =>
      simp only [if_true]; exact delivers data script h
    | false =>
      simp [writeAll]

/-! non-vacuity: five bytes in turns of 2, 1 and the rest; a failure after three bytes -/
example : writeAll true [1, 2, 3, 4, 5] [2, 1] = (true, [1, 2, 3, 4, 5]) := by decide
example : writeAll true [1, 2, 3, 4, 5] [2, 1, -1] = (false, [1, 2, 3]) := by decide
example : writeAll true [1, 2, 3] [0, 100] = (true, [1, 2, 3]) := by decide

end Imdlv.C18
