import Imdlv.Generated.Consts
import Imdlv.Model.Basic
/-!
# Model of the UDP tracker client (`src/tracker/*`, `torrent announce`) — C12

Requests are byte lists built in the (source-extracted) field order with
big-endian fixed-width fields. `exchange` is the three-attempt send/receive
loop: `replies[i]` is what the `i`-th `recv` returns (`none` = timeout or
error; `some d` = a datagram, truncated to the receive buffer).
-/
namespace Imdlv.Tracker

/-- `k` bytes, big endian, of `n mod 256^k` -/
def toBE : Nat → Nat → Bytes
  | 0, _ => []
  | k + 1, n => UInt8.ofNat (n / 256 ^ k % 256) :: toBE k n

def ofBE (b : Bytes) : Nat := b.foldl (fun a x => a * 256 + x.toNat) 0

def connectReq (tid : Nat) : Bytes := toBE 8 Consts.udpMagic ++ toBE 4 0 ++ toBE 4 tid

def announceReq (cid tid : Nat) (infohash peerId : Bytes) (port : Nat) : Bytes :=
  toBE 8 cid ++ toBE 4 1 ++ toBE 4 tid ++ infohash ++ peerId ++
  toBE 8 Consts.annDownloaded ++ toBE 8 Consts.annLeft ++ toBE 8 Consts.annUploaded ++
  toBE 8 Consts.annEvent ++ toBE 4 Consts.annIp ++ toBE 4 Consts.annNumWant ++ toBE 2 port

inductive XErr where
  | timeout            -- nothing (or an empty datagram) received: `TrackerExchange`
  | malformed          -- too short / wrong transaction id / wrong action
  | peerList           -- ragged compact peer list
deriving DecidableEq, Repr

/-- the send/receive loop: number of sends and the datagram that ended it -/
def recvLoop (bufLen : Nat) : Nat → List (Option Bytes) → Nat × Option Bytes
  | 0, _ => (0, none)
  | n + 1, replies =>
    match replies.head? with
    | some (some d) => (1, some (d.take bufLen))
    | _ => let r := recvLoop bufLen n replies.tail; (r.1 + 1, r.2)

structure Header where
  action : Nat
  tid : Nat
deriving DecidableEq, Repr

/-- `Client::exchange`: `minLen` is the response header length; returns the
number of sends and the accepted datagram -/
def exchange (bufLen minLen : Nat) (reqAction reqTid : Nat) (replies : List (Option Bytes)) :
    Nat × Except XErr Bytes :=
  let r := recvLoop bufLen Consts.udpRetries replies
  match r.2 with
  | none => (r.1, .error .timeout)
  | some d =>
    if d.length = 0 then (r.1, .error .timeout)
    else if d.length < minLen then (r.1, .error .malformed)
    else if ofBE ((d.drop 4).take 4) ≠ reqTid ∨ ofBE (d.take 4) ≠ reqAction then (r.1, .error .malformed)
    else (r.1, .ok d)

/-- the property's acceptance predicate -/
def accepted (minLen reqAction reqTid : Nat) (d : Bytes) : Prop :=
  d.length ≥ minLen ∧ ofBE (d.take 4) = reqAction ∧ ofBE ((d.drop 4).take 4) = reqTid

def records (stride : Nat) (p : Bytes) : List Bytes := chunks stride p

/-- `parse_compact_peer_list` -/
def parsePeers (stride : Nat) (p : Bytes) : Except XErr (List Bytes) :=
  if p.length % stride ≠ 0 then .error .peerList else .ok (records stride p)

structure TrackerRun where
  connectSends : Nat
  announceSends : Nat
  result : Except XErr (List Bytes)
deriving Repr

/-- one tracker: connect exchange, then announce exchange with the connection id just received -/
def runTracker (stride : Nat) (ctid atid : Nat) (connectReplies announceReplies : List (Option Bytes)) :
    TrackerRun × Option Nat :=
  match exchange Consts.connectRespLen Consts.connectRespLen 0 ctid connectReplies with
  | (n, .error e) => ({ connectSends := n, announceSends := 0, result := .error e }, none)
  | (n, .ok d) =>
    let cid := ofBE ((d.drop 8).take 8)
    match exchange Consts.rxBufLen Consts.announceRespLen 1 atid announceReplies with
    | (m, .error e) => ({ connectSends := n, announceSends := m, result := .error e }, some cid)
    | (m, .ok a) =>
      ({ connectSends := n, announceSends := m, result := parsePeers stride (a.drop Consts.announceRespLen) }, some cid)

/-! ## `torrent announce` bookkeeping -/

inductive Screen where
  | notUdp | noHostPort | ok
deriving DecidableEq, Repr

/-- `Client::from_url` screening: scheme must be `udp`, host and port present -/
def screen (scheme : String) (hasHost hasPort : Bool) : Screen :=
  if scheme ≠ "udp" then .notUdp else if hasHost && hasPort then .ok else .noHostPort

inductive TrackerOutcome where
  | skipped               -- URL did not parse / not udp / no host:port / connect failed: not usable
  | announceFailed        -- usable, announce reported as failed
  | peers (l : List Bytes)
deriving Repr

def insertSet (x : Bytes) (s : List Bytes) : List Bytes := if s.contains x then s else s ++ [x]

/-- exit status and the set of printed peers -/
def announceCommand (outcomes : List TrackerOutcome) : Nat × List Bytes :=
  let usable := outcomes.filter fun o => match o with | .skipped => false | _ => true
  let peers := outcomes.foldl (fun s o => match o with
    | .peers l => l.foldl (fun s x => insertSet x s) s
    | _ => s) []
  if usable.isEmpty then (1, []) else (0, peers)

/-- what `torrent announce` writes to standard error for one tracker of the torrent -/
inductive Note where
  | skipped   -- "Skipping tracker: …" / "Couldn't build tracker client. …"
  | failed    -- "Announce failed: …"
deriving DecidableEq, Repr

def noteOf : TrackerOutcome → Option Note
  | .skipped => some .skipped
  | .announceFailed => some .failed
  | .peers _ => none

/-- the notes on standard error, one per tracker that was skipped or whose exchange failed, in tracker order -/
def announceNotes (outcomes : List TrackerOutcome) : List Note := outcomes.filterMap noteOf

end Imdlv.Tracker
