/-!
# Model of the padding arithmetic of `Table::write_human_readable` (`src/table.rs`)

Every row of the human-readable table is written as `name_width - width(name)` blanks, the name,
then the value; `name_width` is the maximum of the widths of the names of *the same rows*
(`Table::name_width`). The subtraction is on `usize`: it panics in a debug build (and yields an
absurd padding width in a release build) when it underflows - modelled as `none`. Tier labels are
padded to `tier_name_width + 1` in the same way. Import-free.
-/
namespace Imdlv.Table

/-- `rows.iter().map(width).max().unwrap_or(0)` -/
def maxWidth (ws : List Nat) : Nat := ws.foldl max 0

/-- `usize` subtraction -/
def checkedSub (a b : Nat) : Option Nat := if b ≤ a then some (a - b) else none

/-- the padding in front of each row's name; `none` = the subtraction underflows somewhere -/
def namePads (ws : List Nat) : Option (List Nat) := ws.mapM (fun w => checkedSub (maxWidth ws) w)

/-- a tiers value: the widths of the tier labels (`Tier 1`, …); each label is written in a field of
`tier_name_width + 1` columns, i.e. followed by `tier_name_width + 1 - (width + 1)` blanks -/
def tierPads (labels : List Nat) : Option (List Nat) :=
  labels.mapM (fun w => checkedSub (maxWidth labels + 1) (w + 1))

end Imdlv.Table
