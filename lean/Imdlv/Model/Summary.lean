import Imdlv.Model.Load
/-!
# Model of `src/torrent_summary.rs` and the tab-delimited renderer of `src/table.rs` (C07)
-/
namespace Imdlv.Summary
open Imdlv Imdlv.Bencode Imdlv.Metainfo Imdlv.Load

/-- `PathBuf::push` on text (Unix) -/
def pathPush (base c : Bytes) : Bytes :=
  if c.head? = some 47 then c
  else if base.isEmpty then c
  else if base.getLast? = some 47 then base ++ c
  else base ++ [47] ++ c

def utf8OfChars (cs : List Char) : Bytes := (String.ofList cs).toUTF8.toList

/-- `HostPort::to_string` of a stored node -/
def nodeDisplay (n : NodeM) : Bytes :=
  let cs := (String.fromUTF8? (ByteArray.mk n.host.toArray)).map (·.toList) |>.getD []
  let text := if cs.contains ':' then ['['] ++ cs ++ [']'] else cs
  match HostPort.hostParseC text with
  | .ok h => utf8OfChars (HostPort.display HostPort.hostShowUrl (h, n.port))
  | _ => []

structure Summary where
  name : Bytes
  comment : Option Bytes
  creationDate : Option Nat
  createdBy : Option Bytes
  source : Option Bytes
  infoHashOf : Bytes          -- the bytes whose SHA-1 is reported
  torrentSize : Nat
  contentSize : Nat
  priv : Bool
  tracker : Option Bytes
  announceList : List (List Bytes)
  updateUrl : Option Bytes
  dhtNodes : List Bytes
  pieceSize : Nat
  pieceCount : Nat
  fileCount : Nat
  files : List Bytes

def lengthsOf : ModeM → List Nat
  | .single n _ => [n]
  | .multiple fs => fs.map (·.length)

/-- `TorrentSummary::torrent_summary_data` -/
def summary (m : MetainfoM) (inputLen : Nat) (infoSpan : Bytes) : Summary :=
  { name := m.info.name
    comment := m.comment
    creationDate := m.creationDate
    createdBy := m.createdBy
    source := m.info.source
    infoHashOf := infoSpan
    torrentSize := inputLen
    contentSize := (lengthsOf m.info.mode).sum
    priv := m.info.priv.getD false
    tracker := m.announce
    announceList := m.announceList.getD []
    updateUrl := m.info.updateUrl
    dhtNodes := (m.nodes.getD []).map nodeDisplay
    pieceSize := m.info.pieceLength
    pieceCount := m.info.pieces.length / 20
    fileCount := match m.info.mode with | .single _ _ => 1 | .multiple fs => fs.length
    files := match m.info.mode with
      | .single _ _ => [m.info.name]
      | .multiple fs => fs.map fun f => f.path.foldl pathPush m.info.name }

/-! ## tab-delimited rendering: one row per line, cells separated by tabs -/

def joinTab : List Bytes → Bytes
  | [] => []
  | [c] => c
  | c :: t => c ++ [9] ++ joinTab t

/-- `Table::write_tab_delimited`: `name \t cell \t cell … \n` -/
def renderTab (rows : List (Bytes × List Bytes)) : Bytes :=
  (rows.map fun r => r.1 ++ [9] ++ joinTab r.2 ++ [10]).flatten

def splitOn (sep : UInt8) (s : Bytes) : List Bytes :=
  s.foldr (fun b acc => if b = sep then [] :: acc else match acc with
    | [] => [[b]]
    | h :: t => (b :: h) :: t) [[]]

/-- an independent reader of the tab-delimited form -/
def parseTab (text : Bytes) : List (Bytes × List Bytes) :=
  ((splitOn 10 text).dropLast).map fun line =>
    match splitOn 9 line with
    | [] => ([], [])
    | name :: cells => (name, cells)

end Imdlv.Summary
