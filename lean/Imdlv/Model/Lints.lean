import Imdlv.Generated.Consts
/-!
# Model of the create-side validity rules (C14) and the piece length picker (C15)

`createDecision` follows the order of checks in `Create::run`:
private-trackerless (before the walk), zero, uneven, small, then the `u32`
bound applied when the hasher is built (`Bytes::as_piece_length`).
-/
namespace Imdlv.Lints

inductive Lint where
  | privateTrackerless | smallPieceLength | unevenPieceLength
deriving DecidableEq, Repr

inductive Err where
  | privateTrackerless | zero | uneven | small | tooLarge
deriving DecidableEq, Repr

deriving instance DecidableEq for Except

/-- `Error::lint` -/
def lintOf : Err → Option Lint
  | .uneven => some .unevenPieceLength
  | .small => some .smallPieceLength
  | .privateTrackerless => some .privateTrackerless
  | _ => none

def Lint.name : Lint → String
  | .privateTrackerless => "private-trackerless"
  | .smallPieceLength => "small-piece-length"
  | .unevenPieceLength => "uneven-piece-length"

/-- `u64::is_power_of_two` -/
def isPow2 (n : Nat) : Bool := n != 0 && 2 ^ (Nat.log2 n) == n

/-- the decision of `imdl torrent create` about a requested piece length `p`
under the allow set `allow`, with `--private` = `priv` and `--announce` given =
`ann`: `ok p` records the piece length, `error e` is the rejection. -/
def createDecision (allow : Lint → Bool) (p : Nat) (priv ann : Bool) : Except Err Nat :=
  if !allow .privateTrackerless && priv && !ann then .error .privateTrackerless
  else if p == 0 then .error .zero
  else if !allow .unevenPieceLength && !isPow2 p then .error .uneven
  else if !allow .smallPieceLength && decide (p < Consts.smallPieceThreshold) then .error .small
  else if decide (p ≥ 2 ^ 32) then .error .tooLarge
  else .ok p

/-- which lints a request violates -/
def violated (p : Nat) (priv ann : Bool) : Lint → Bool
  | .privateTrackerless => priv && !ann
  | .unevenPieceLength => p != 0 && !isPow2 p
  | .smallPieceLength => decide (p < Consts.smallPieceThreshold)

/-! ## piece length picker -/

/-- ceiling of log₂ (0 for `n ≤ 1`) -/
def clog2 (n : Nat) : Nat := if n ≤ 1 then 0 else Nat.log2 (n - 1) + 1

/-- `PieceLengthPicker::from_content_size` with the exponent function a parameter
(the code computes it in `f64`: `ceil(log2(max(n,1) as f64))`). -/
def pickWith (e : Nat → Nat) (n : Nat) : Nat :=
  min (max (2 ^ (e (max n 1) / Consts.pickerDiv + Consts.pickerOff)) (Consts.pickerMinKiB * 1024))
    (Consts.pickerMaxMiB * 1024 * 1024)

def pick (n : Nat) : Nat := pickWith clog2 n

/-- rows of `imdl torrent piece-length`: (content size, piece length) -/
def table : List (Nat × Nat) :=
  (List.range (Consts.tableTo - Consts.tableFrom)).map fun i =>
    (2 ^ (Consts.tableFrom + i), pick (2 ^ (Consts.tableFrom + i)))

end Imdlv.Lints
