import Imdlv.Generated.Consts
import Imdlv.Model.Bencode
import Imdlv.Model.Metainfo
/-!
# Model of the ut_metadata fetcher (`src/peer/*`, `from-link`) — C11

The client sees a byte stream. `recv` is the (repaired) framing: a zero length
prefix is a keep-alive and is skipped; otherwise one id byte and up to
`length-1` payload bytes. `step` is `Client::handle_msg`; `fetch` folds it over
everything the peer sends after its handshake until an info dictionary has been
accepted, an error occurs, or the stream ends. The typed readers (serde +
bendy) are bundled in `Readers` so that theorems can quantify over them.
-/
namespace Imdlv.Peer
open Imdlv Imdlv.Bencode Imdlv.Metainfo

def ofBE (b : Bytes) : Nat := b.foldl (fun a x => a * 256 + x.toNat) 0

structure Msg where
  id : UInt8
  /-- `None` when the length prefix is 1 -/
  payload : Option Bytes
deriving DecidableEq, Repr

/-- `Connection::recv` on the remaining stream: `none` = the stream ended (network error) -/
def recv : Nat → Bytes → Option (Msg × Bytes)
  | 0, _ => none
  | fuel + 1, s =>
    if s.length < 4 then none else
    let len := ofBE (s.take 4)
    let r := s.drop 4
    if len = 0 then recv fuel r else
    match r with
    | [] => none
    | id :: r' =>
      if len = 1 then some ({ id := id, payload := none }, r')
      else some ({ id := id, payload := some (r'.take (len - 1)) }, r'.drop (len - 1))

def toBE4 (n : Nat) : Bytes :=
  [UInt8.ofNat (n / 256 ^ 3 % 256), UInt8.ofNat (n / 256 ^ 2 % 256), UInt8.ofNat (n / 256 % 256), UInt8.ofNat (n % 256)]

/-- `Message::serialize` -/
def frame (m : Msg) : Bytes :=
  match m.payload with
  | none => toBE4 1 ++ [m.id]
  | some p => toBE4 (1 + p.length) ++ [m.id] ++ p

def keepAlive : Bytes := [0, 0, 0, 0]

inductive FErr where
  | network | handshakeHeader | handshakeInfohash | noExtensionProtocol
  | extendedPayload | bencode | metadataSizeNotKnown | utMetadataNotSupported | noExtendedHandshake
  | wrongPiece | pieceLength | infoLength | infoDeserialize | wrongInfohash
deriving DecidableEq, Repr

/-- `Connection::recv_handshake` + `Client::connect` -/
def checkHandshake (target : Bytes) (hs : Bytes) : Except FErr Unit :=
  if hs.length < Consts.peerHandshakeLen then .error .network
  else if hs.take 20 ≠ Consts.peerHeader then .error .handshakeHeader
  else if (hs.drop 28).take 20 ≠ target then .error .handshakeInfohash
  else if ((hs.drop 20).take 8).getD 5 0 &&& UInt8.ofNat Consts.extensionBit = 0 then .error .noExtensionProtocol
  else .ok ()

structure ExtHandshake where
  metadataSize : Option Nat
  utMetadataId : Option Nat
deriving DecidableEq, Repr

structure UtMsg where
  msgType : Nat
  piece : Nat
  totalSize : Option Nat
deriving DecidableEq, Repr

/-- the serde/bendy typed readers -/
structure Readers (ι : Type) where
  handshake : Bytes → Option ExtHandshake
  /-- parsed message and the length of its canonical re-encoding (the payload offset) -/
  utMsg : Bytes → Option (UtMsg × Nat)
  /-- typed read of the assembled buffer -/
  info : Bytes → Option ι
  /-- `bendy::serde::ser::to_bytes(&info)` -/
  serialize : ι → Bytes

structure Client where
  buf : Bytes
  hs : Option ExtHandshake
  /-- piece requests sent so far, oldest first -/
  requests : List Nat
deriving DecidableEq, Repr

def Client.init : Client := { buf := [], hs := none, requests := [] }

inductive Step (ι : Type) where
  | continue (c : Client)
  | done (info : ι) (c : Client)
  | fail (e : FErr)

/-- `Client::handle_msg` in state `WantInfo` -/
def step {ι δ : Type} [DecidableEq δ] (R : Readers ι) (H : Bytes → δ) (target : δ) (c : Client) (m : Msg) : Step ι :=
  if m.id.toNat ≠ Consts.extendedFlavour then .continue c else
  match m.payload with
  | none => .fail .extendedPayload
  | some [] => .fail .extendedPayload
  | some (ext :: body) =>
    if ext.toNat = 0 then
      -- extension handshake
      match R.handshake body with
      | none => .fail .bencode
      | some h =>
        if h.metadataSize.isNone then .fail .metadataSizeNotKnown
        else if h.utMetadataId.isNone then .fail .utMetadataNotSupported
        else .continue { c with hs := some h, requests := c.requests ++ [0] }
    else if ext.toNat = Consts.ownUtMetadataId then
      match c.hs with
      | none => .fail .noExtendedHandshake
      | some h =>
        match h.metadataSize with
        | none => .fail .metadataSizeNotKnown
        | some size =>
          match R.utMsg body with
          | none => .fail .bencode
          | some (u, offset) =>
            if u.msgType ≠ 1 then .continue c else
            let piece := c.buf.length / Consts.utPieceLength
            if u.piece ≠ piece then .fail .wrongPiece else
            let data := body.drop offset
            if data.length > Consts.utPieceLength then .fail .pieceLength else
            let buf := c.buf ++ data
            if buf.length = size then
              match R.info buf with
              | none => .fail .infoDeserialize
              | some info =>
                if H (R.serialize info) = target then .done info { c with buf := buf } else .fail .wrongInfohash
            else if buf.length < size then .continue { c with buf := buf, requests := c.requests ++ [piece + 1] }
            else .fail .infoLength
    else .continue c

inductive Result (ι : Type) where
  | ok (info : ι) (requests : List Nat)
  | error (e : FErr) (requests : List Nat)

/-- `Client::fetch_info_dict` over the byte stream that follows the peer's handshake -/
def fetchLoop {ι δ : Type} [DecidableEq δ] (R : Readers ι) (H : Bytes → δ) (target : δ) :
    Nat → Client → Bytes → Result ι
  | 0, c, _ => .error .network c.requests
  | fuel + 1, c, s =>
    match recv (s.length + 1) s with
    | none => .error .network c.requests
    | some (m, rest) =>
      match step R H target c m with
      | .fail e => .error e c.requests
      | .done info c' => .ok info c'.requests
      | .continue c' => fetchLoop R H target fuel c' rest

/-- whole connection: the peer's 68-byte handshake, then the message stream -/
def fetch {ι δ : Type} [DecidableEq δ] (R : Readers ι) (H : Bytes → δ) (H20 : δ → Bytes) (target : δ) (incoming : Bytes) :
    Result ι :=
  match checkHandshake (H20 target) (incoming.take Consts.peerHandshakeLen) with
  | .error e => .error e []
  | .ok () => fetchLoop R H target (incoming.length + 1) Client.init (incoming.drop Consts.peerHandshakeLen)

/-- `FromLink::run`: what is written, if anything (`trackers` from the magnet link) -/
def fromLinkOutput {ι : Type} (wrap : ι → Bytes) : Result ι → Option Bytes
  | .ok info _ => some (wrap info)
  | .error _ _ => none

/-! ## concrete readers (driver) -/

def intNat : BVal → Option Nat
  | .int false n => some n
  | _ => none

def isCont (b : UInt8) : Bool := 0x80 ≤ b && b ≤ 0xBF

/-- well-formed UTF-8 (RFC 3629: shortest form only, no surrogates, at most U+10FFFF) — what
`str::from_utf8` accepts; fuel = remaining length -/
def utf8Go : Nat → Bytes → Bool
  | _, [] => true
  | 0, _ :: _ => false
  | fuel + 1, b0 :: t =>
    if b0 < 0x80 then utf8Go fuel t
    else if 0xC2 ≤ b0 && b0 ≤ 0xDF then
      match t with
      | b1 :: t' => isCont b1 && utf8Go fuel t'
      | _ => false
    else if 0xE0 ≤ b0 && b0 ≤ 0xEF then
      match t with
      | b1 :: b2 :: t' =>
        (if b0 == 0xE0 then 0xA0 ≤ b1 && b1 ≤ 0xBF
         else if b0 == 0xED then 0x80 ≤ b1 && b1 ≤ 0x9F
         else isCont b1) && isCont b2 && utf8Go fuel t'
      | _ => false
    else if 0xF0 ≤ b0 && b0 ≤ 0xF4 then
      match t with
      | b1 :: b2 :: b3 :: t' =>
        (if b0 == 0xF0 then 0x90 ≤ b1 && b1 ≤ 0xBF
         else if b0 == 0xF4 then 0x80 ≤ b1 && b1 ≤ 0x8F
         else isCont b1) && isCont b2 && isCont b3 && utf8Go fuel t'
      | _ => false
    else false

def isUtf8 (b : Bytes) : Bool := utf8Go b.length b

def typedOk (d : BDict) (key : String) (ok : BVal → Bool) : Bool :=
  match d.lookup (str key) with
  | none => true
  | some v => ok v

def isBytes : BVal → Bool | .bytes _ => true | _ => false
def isNatBelow (bound : Nat) : BVal → Bool | .int false n => n < bound | _ => false

def mValuesOk : BDict → Bool
  | .nil => true
  | .cons k v t => isUtf8 k && isNatBelow 256 v && mValuesOk t

/-- `extended::Handshake` via serde: `m` required (string → u8), `metadata_size` optional usize; other known fields type-checked -/
def readHandshakeC (body : Bytes) : Option ExtHandshake :=
  match decodeTop 2048 body with
  | some (.dict d, _) =>
    match d.lookup (str "m") with
    | some (.dict m) =>
      if !mValuesOk m then none
      else if !(typedOk d "metadata_size" (isNatBelow (2 ^ 64)) && typedOk d "p" (isNatBelow 65536) &&
                typedOk d "v" (fun v => match v with | .bytes b => isUtf8 b | _ => false) &&
                typedOk d "yourip" isBytes && typedOk d "ipv6" isBytes && typedOk d "ipv4" isBytes &&
                typedOk d "reqq" (isNatBelow (2 ^ 64))) then none
      else some { metadataSize := (d.lookup (str "metadata_size")).bind intNat,
                  utMetadataId := (m.lookup (str "ut_metadata")).bind intNat }
    | _ => none
  | _ => none

/-- `UtMetadata` via serde (trailing bytes after the dictionary are the piece data) -/
def readUtMsgC (body : Bytes) : Option (UtMsg × Nat) :=
  match decodeTop 2048 body with
  | some (.dict d, _) =>
    match d.lookup (str "msg_type"), d.lookup (str "piece") with
    | some mt, some pc =>
      if !(isNatBelow 256 mt && isNatBelow (2 ^ 64) pc && typedOk d "total_size" (isNatBelow (2 ^ 64))) then none else
      match intNat mt, intNat pc with
      | some mt, some pc =>
        let ts := (d.lookup (str "total_size")).bind intNat
        let re : BVal := .dict (dictOfFields (present [
          (str "msg_type", some (bnat mt)), (str "piece", some (bnat pc)), (str "total_size", ts.map bnat)]))
        some ({ msgType := mt, piece := pc, totalSize := ts }, (encode re).length)
      | _, _ => none
    | _, _ => none
  | _ => none

def unhexNibble (b : UInt8) : Option Nat :=
  if 48 ≤ b ∧ b ≤ 57 then some (b.toNat - 48)
  else if 97 ≤ b ∧ b ≤ 102 then some (b.toNat - 87)
  else if 65 ≤ b ∧ b ≤ 70 then some (b.toNat - 55)
  else none

def unhex32 : Bytes → Option Bytes
  | [] => some []
  | [_] => none
  | a :: b :: t => match unhexNibble a, unhexNibble b, unhex32 t with
    | some x, some y, some r => some (UInt8.ofNat (16 * x + y) :: r)
    | _, _, _ => none

def readMd5 (d : BDict) : Option (Option Bytes) :=
  match d.lookup (str "md5sum") with
  | none => some none
  | some (.bytes h) => if h.length = 32 then (unhex32 h).map some else none
  | some _ => none

def strList : BList → Option (List Bytes)
  | .nil => some []
  | .cons (.bytes b) t => if isUtf8 b then (strList t).map (b :: ·) else none
  | .cons _ _ => none

def readFile : BVal → Option FileM
  | .dict d =>
    match d.lookup (str "length"), d.lookup (str "path"), readMd5 d with
    | some (.int false n), some (.list p), some md5 =>
      if n < 2 ^ 64 then (strList p).map fun path => { length := n, path := path, md5 := md5 } else none
    | _, _, _ => none
  | _ => none

def readFiles : BList → Option (List FileM)
  | .nil => some []
  | .cons v t => match readFile v, readFiles t with
    | some f, some r => some (f :: r)
    | _, _ => none

/-- serde identifies every key of a struct's dictionary — unknown ones too — as a string: a key that
is not valid UTF-8 fails the whole read (observed for the metainfo and info dictionaries; dictionaries
below them are buffered and keep their raw keys) -/
def keysUtf8 : BDict → Bool
  | .nil => true
  | .cons k _ t => isUtf8 k && keysUtf8 t

/-- `Info` via serde: required `name`, `piece length`, `pieces` (multiple of 20), flattened untagged mode
(`length` first, else `files`), optional `private` (0/1), `source`, `update-url` (accepted by `urlOk`) -/
def readInfoC (urlOk : Bytes → Bool) (buf : Bytes) : Option InfoM :=
  match decodeTop 2048 buf with
  | some (.dict d, _) =>
    if !keysUtf8 d then none else
    match d.lookup (str "name"), d.lookup (str "piece length"), d.lookup (str "pieces") with
    | some (.bytes name), some (.int false pl), some (.bytes pieces) =>
      if !(isUtf8 name && decide (pl < 2 ^ 64) && decide (pieces.length % 20 = 0)) then none else
      let priv : Option (Option Bool) := match d.lookup (str "private") with
        | none => some none
        | some (.int false 0) => some (some false)
        | some (.int false 1) => some (some true)
        | some _ => none
      let source : Option (Option Bytes) := match d.lookup (str "source") with
        | none => some none
        | some (.bytes s) => if isUtf8 s then some (some s) else none
        | some _ => none
      let url : Option (Option Bytes) := match d.lookup (str "update-url") with
        | none => some none
        | some (.bytes s) => if isUtf8 s && urlOk s then some (some s) else none
        | some _ => none
      let mode : Option ModeM :=
        match d.lookup (str "length"), readMd5 d with
        | some (.int false n), some md5 => if n < 2 ^ 63 then some (.single n md5) else none
        | _, _ =>
          match d.lookup (str "files") with
          | some (.list fl) => (readFiles fl).map .multiple
          | _ => none
      match priv, source, url, mode with
      | some priv, some source, some url, some mode =>
        some { priv := priv, pieceLength := pl, name := name, source := source, pieces := pieces, mode := mode, updateUrl := url }
      | _, _, _, _ => none
    | _, _, _ => none
  | _ => none

def readersC (urlOk : Bytes → Bool) : Readers InfoM :=
  { handshake := readHandshakeC, utMsg := readUtMsgC, info := readInfoC urlOk, serialize := fun i => encode i.toBVal }

end Imdlv.Peer
