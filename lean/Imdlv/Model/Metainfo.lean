import Imdlv.Model.Bencode
/-!
# Typed metainfo and its bencode form (C05, C07, C11)

`toBVal` mirrors the serde attributes of `Metainfo` / `Info` / `Mode` / `FileInfo` /
`HostPort` and bendy's struct serializer: each struct saves its present fields
into an unsorted dictionary encoder (a sorted map), which is what `dictOfFields`
does by sorted insertion; `None` fields are skipped; the flattened `mode` adds
`length`(+`md5sum`) or `files` to the info dictionary; `md5sum` is 32 lower-case
hex characters; `pieces` is one byte string; a node is `[host, port]`.
-/
namespace Imdlv.Metainfo
open Imdlv Imdlv.Bencode

/-- insert into a dictionary kept in strictly ascending key order (replace on equal key) -/
def insertSorted (k : Bytes) (v : BVal) : BDict → BDict
  | .nil => .cons k v .nil
  | .cons k' v' t =>
    if bytesLt k k' then .cons k v (.cons k' v' t)
    else if k = k' then .cons k v t
    else .cons k' v' (insertSorted k v t)

/-- bendy's `UnsortedDictEncoder`: save the given pairs, emit them sorted -/
def dictOfFields (fs : List (Bytes × BVal)) : BDict :=
  fs.foldl (fun d f => insertSorted f.1 f.2 d) .nil

/-- keep the fields that are present -/
def present (fs : List (Bytes × Option BVal)) : List (Bytes × BVal) :=
  fs.filterMap fun f => f.2.map fun v => (f.1, v)

def str (s : String) : Bytes := s.toUTF8.toList

def hexNibble (n : Nat) : UInt8 := if n < 10 then UInt8.ofNat (48 + n) else UInt8.ofNat (87 + n)
def hexLower (b : Bytes) : Bytes := b.flatMap fun x => [hexNibble (x.toNat / 16), hexNibble (x.toNat % 16)]

structure FileM where
  length : Nat
  path : List Bytes
  md5 : Option Bytes
deriving DecidableEq, Repr

inductive ModeM where
  | single (length : Nat) (md5 : Option Bytes)
  | multiple (files : List FileM)
deriving DecidableEq, Repr

structure InfoM where
  priv : Option Bool
  pieceLength : Nat
  name : Bytes
  source : Option Bytes
  pieces : Bytes
  mode : ModeM
  updateUrl : Option Bytes
deriving DecidableEq, Repr

structure NodeM where
  host : Bytes
  port : Nat
deriving DecidableEq, Repr

structure MetainfoM where
  announce : Option Bytes
  announceList : Option (List (List Bytes))
  comment : Option Bytes
  createdBy : Option Bytes
  creationDate : Option Nat
  encoding : Option Bytes
  info : InfoM
  nodes : Option (List NodeM)
deriving DecidableEq, Repr

def bstr (b : Bytes) : BVal := .bytes b
def bnat (n : Nat) : BVal := .int false n
def blist (l : List BVal) : BVal := .list (BList.ofList l)

def FileM.toBVal (f : FileM) : BVal :=
  .dict (dictOfFields (present [
    (str "length", some (bnat f.length)),
    (str "path", some (blist (f.path.map bstr))),
    (str "md5sum", f.md5.map fun m => bstr (hexLower m))]))

def modeFields : ModeM → List (Bytes × Option BVal)
  | .single len md5 => [(str "length", some (bnat len)), (str "md5sum", md5.map fun m => bstr (hexLower m))]
  | .multiple files => [(str "files", some (blist (files.map FileM.toBVal)))]

def InfoM.toBVal (i : InfoM) : BVal :=
  .dict (dictOfFields (present ([
    (str "private", i.priv.map fun b => bnat (if b then 1 else 0)),
    (str "piece length", some (bnat i.pieceLength)),
    (str "name", some (bstr i.name)),
    (str "source", i.source.map bstr),
    (str "pieces", some (bstr i.pieces))] ++ modeFields i.mode ++ [
    (str "update-url", i.updateUrl.map bstr)])))

def NodeM.toBVal (n : NodeM) : BVal := blist [bstr n.host, bnat n.port]

def MetainfoM.toBVal (m : MetainfoM) : BVal :=
  .dict (dictOfFields (present [
    (str "announce", m.announce.map bstr),
    (str "announce-list", m.announceList.map fun tiers => blist (tiers.map fun t => blist (t.map bstr))),
    (str "comment", m.comment.map bstr),
    (str "created by", m.createdBy.map bstr),
    (str "creation date", m.creationDate.map bnat),
    (str "encoding", m.encoding.map bstr),
    (str "info", some m.info.toBVal),
    (str "nodes", m.nodes.map fun ns => blist (ns.map NodeM.toBVal))]))

/-- `Metainfo::serialize` -/
def MetainfoM.serialize (m : MetainfoM) : Bytes := encode m.toBVal

/-! ## create: assembling the metainfo from the parsed options (`Create::run`) -/

structure CreateOpts where
  /-- `--announce`, as printed by the URL parser -/
  announce : Option Bytes
  /-- `--announce-tier`, each split at `,`, stored as given -/
  tiers : List (List Bytes)
  comment : Option Bytes
  source : Option Bytes
  nodes : List NodeM
  updateUrl : Option Bytes
  name : Bytes
  pieceLength : Nat
  priv : Bool
  noCreatedBy : Bool
  noCreationDate : Bool

def createMetainfo (o : CreateOpts) (createdBy : Bytes) (now : Nat) (mode : ModeM) (pieces : Bytes) : MetainfoM :=
  { announce := o.announce
    announceList := if o.tiers.isEmpty then none else some o.tiers
    comment := o.comment
    createdBy := if o.noCreatedBy then none else some createdBy
    creationDate := if o.noCreationDate then none else some now
    encoding := some (str "UTF-8")
    nodes := if o.nodes.isEmpty then none else some o.nodes
    info := {
      priv := if o.priv then some true else none
      pieceLength := o.pieceLength
      name := o.name
      source := o.source
      pieces := pieces
      mode := mode
      updateUrl := o.updateUrl } }

end Imdlv.Metainfo
