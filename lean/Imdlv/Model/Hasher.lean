import Imdlv.Model.Basic
/-!
# Model of `src/hasher.rs` (create side) — the read loop with its window

`Hasher` keeps a running SHA-1 of the open piece; the model keeps the open
piece's bytes instead (`open_`) and the list of closed blocks (`pieces`), so
that "what was hashed" is a value theorems can talk about. Digests are applied
outside (`H` is a parameter of the theorems, the harness applies real SHA-1).

A *schedule* is the list of sizes successive `read` calls return. A legal
reader returns between 1 and `min(window, available)` bytes while data remains
(0 only at end of file); `takeN` clamps the scheduled size into that range.
When the schedule is exhausted the reader fills the whole window.
-/
namespace Imdlv.Hasher

structure St where
  open_ : Bytes
  pieces : List Bytes
deriving Repr

def St.init : St := { open_ := [], pieces := [] }

/-- bytes returned by one `read` call: window `w`, `k` scheduled, `avail` left -/
def takeN (w k avail : Nat) : Nat := max 1 (min (min k w) avail)

/-- `Hasher::hash_read_io`: returns the new state and the bytes it consumed
(what the per-file length and MD5 are computed from). The loop ends when the
window is empty (`read(&mut [])` returns 0) or the stream is exhausted. -/
def readLoop (p : Nat) (s : St) (data : Bytes) (sched : List Nat) : St × Bytes :=
  let w := p - s.open_.length
  if h : w = 0 ∨ data = [] then (s, []) else
    let k := sched.headD w
    let n := takeN w k data.length
    let rd := data.take n
    let open' := s.open_ ++ rd
    let s' : St :=
      if open'.length = p then { open_ := [], pieces := s.pieces ++ [open'] }
      else { s with open_ := open' }
    let r := readLoop p s' (data.drop n) sched.tail
    (r.1, rd ++ r.2)
termination_by data.length
decreasing_by
  simp only [List.length_drop]
  have h1 : data.length ≠ 0 := by
    intro h0; apply h; right; exact List.eq_nil_of_length_eq_zero h0
  unfold takeN; omega

/-- `Hasher::finish`: flush a trailing partial piece -/
def finish (s : St) : List Bytes :=
  if s.open_.length > 0 then s.pieces ++ [s.open_] else s.pieces

/-- `hash_contents`: one running state threaded through all files, in order;
returns the state and, per file, the bytes consumed. -/
def hashStreams (p : Nat) : St → List (Bytes × List Nat) → St × List Bytes
  | s, [] => (s, [])
  | s, (d, sch) :: t =>
    let r := readLoop p s d sch
    let r' := hashStreams p r.1 t
    (r'.1, r.2 :: r'.2)

/-- `hash_files` for a directory: blocks hashed and per-file consumed bytes -/
def hashFiles (p : Nat) (fs : List (Bytes × List Nat)) : List Bytes × List Bytes :=
  let r := hashStreams p St.init fs
  (finish r.1, r.2)

/-- `hash_stdin`: the same loop on one stream -/
def hashStdin (p : Nat) (d : Bytes) (sch : List Nat) : List Bytes × Bytes :=
  let r := readLoop p St.init d sch
  (finish r.1, r.2)

end Imdlv.Hasher
