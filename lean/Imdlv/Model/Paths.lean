import Imdlv.Model.Basic
/-!
# Path algebra: `std::path` components, `PathBuf::join`, `lexiclean`, `Env::resolve`,
where `create` puts the torrent and where `verify` looks for the content

Follows the Rust code line by line:

* `comps` is `Path::components()` on Unix (root, a leading `.`, `..`, normal; empty segments,
  interior `.` and trailing separators vanish);
* `render` is `components.into_iter().collect::<PathBuf>()` (successive `push`);
* `joinC` is `PathBuf::join` seen through `components()` (an absolute right-hand side replaces);
* `lexiclean` is the `lexiclean` crate's loop, *including* its early return for paths of at
  most one component (so `.` stays `.`) - the stack is kept top-first here (`stepR`) and
  reversed at the end;
* `resolve` is `Env::resolve` (`self.dir().join(path).lexiclean()`);
* `torrentPath` is `CreateContent::torrent_path`, `defaultName` the `file_name()` of the
  resolved input, `contentRoot` the selection in `Verify::run`.

Import-free: the driver executes these definitions.
-/
namespace Imdlv.Paths

/-- a `std::path::Component` on Unix (no prefixes) -/
inductive PC where
  | root | cur | parent
  | normal (s : Bytes)
  deriving DecidableEq, Repr

abbrev CPath := List PC

/-! ## text ↔ components (driver interface; validated by the correspondence, not used in theorems) -/

/-- split at `/`, keeping empty segments -/
def splitSlash : Bytes → List Bytes
  | [] => [[]]
  | b :: rest =>
    if b = 47 then [] :: splitSlash rest
    else match splitSlash rest with
      | [] => [[b]]
      | s :: ss => (b :: s) :: ss

def segToPC (s : Bytes) : Option PC :=
  if s = [] then none
  else if s = [46] then none
  else if s = [46, 46] then some .parent
  else some (.normal s)

/-- `Path::components()` -/
def comps (p : Bytes) : CPath :=
  let segs := splitSlash p
  let body := segs.filterMap segToPC
  match p with
  | 47 :: _ => .root :: body
  | _ =>
    match segs with
    | [46] :: _ => .cur :: body
    | _ => body

def pcText : PC → Bytes
  | .root => [47] | .cur => [46] | .parent => [46, 46] | .normal s => s

/-- `PathBuf::push` on text -/
def pushText (acc t : Bytes) : Bytes :=
  if t.head? = some 47 then t
  else if acc = [] then t
  else if acc.getLast? = some 47 then acc ++ t
  else acc ++ [47] ++ t

/-- `iter.collect::<PathBuf>()` -/
def render (cs : CPath) : Bytes := cs.foldl (fun acc c => pushText acc (pcText c)) []

/-! ## the algebra on component lists -/

def notCur : PC → Bool
  | .cur => false
  | _ => true

/-- `a.join(b).components()`: an absolute `b` replaces `a`; a `.` inside a path is no component -/
def joinC (a b : CPath) : CPath :=
  match b with
  | .root :: _ => b
  | _ => if a = [] then b else a ++ b.filter notCur

/-- one turn of lexiclean's loop; the stack of kept components is top-first -/
def stepR (st : CPath) (c : PC) : CPath :=
  match c with
  | .cur => st
  | .parent =>
    match st with
    | .normal _ :: rest => rest
    | .parent :: rest => .parent :: .parent :: rest
    | [] => [.parent]
    | _ => st
  | c => c :: st

def run (st : CPath) (cs : CPath) : CPath := cs.foldl stepR st

/-- `Path::lexiclean` -/
def lexiclean (cs : CPath) : CPath :=
  if cs.length ≤ 1 then cs else (run [] cs).reverse

/-- `Env::resolve` (the caller has refused the empty path) -/
def resolve (cwd p : CPath) : CPath := lexiclean (joinC cwd p)

/-- `Path::file_name` -/
def fileName (cs : CPath) : Option Bytes :=
  match cs.getLast? with
  | some (.normal n) => some n
  | _ => none

def dotTorrent : Bytes := [46, 116, 111, 114, 114, 101, 110, 116]

/-- `CreateContent::torrent_path(input, name)`: `input.join("..").lexiclean().join("{name}.torrent")`;
`nameT` = the components of `{name}.torrent` -/
def torrentPath (input nameT : CPath) : CPath :=
  joinC (lexiclean (joinC input [.parent])) nameT

/-- `Verify::run`: `--content` as given; else `--base-directory`/name cleaned; else beside the
torrent; from standard input the name itself -/
def contentRoot (content base target : Option CPath) (name : CPath) : CPath :=
  match content with
  | some c => c
  | none =>
    match base with
    | some b => lexiclean (joinC b name)
    | none =>
      match target with
      | some t => lexiclean (joinC (joinC t [.parent]) name)
      | none => name

/-- where `create` writes when no `--output` is given and no `--name`: beside the input, named after
the last component of the resolved input; `none` when that has no file name (`/`, `..`) -/
def createDefaultOutput (cwd input : CPath) : Option CPath :=
  match fileName (resolve cwd input) with
  | some n => some (torrentPath input [.normal (n ++ dotTorrent)])
  | none => none

end Imdlv.Paths
