import Imdlv.Model.Basic
/-!
# Model of `src/host_port.rs` (C17)

`parse` is parametric in the host parser (`url::Host::parse`); `display`,
`toPair`, `ofPair` in the host printers. A concrete host parser for the
sub-language {LDH domains, WHATWG IPv4 numbers, bracketed IPv6} and the two IPv6
printers the code uses (url's for `HOST:PORT` text, std's for the stored pair)
are defined below for the driver.

The regex `^(?P<host>.*?):(?P<port>\d+?)$`: the port is everything after the
last colon and must be a non-empty digit string; the host part must not contain
a line feed (`.` does not match it).
-/
namespace Imdlv.HostPort

inductive Host where
  | domain (s : List Char)
  | ipv4 (n : Nat)            -- 32-bit value
  | ipv6 (segs : List Nat)    -- eight 16-bit groups
deriving DecidableEq, Repr

inductive PErr where
  | portMissing | host | port
deriving DecidableEq, Repr

deriving instance DecidableEq for Except

def isDigitCh (c : Char) : Bool := '0' ≤ c && c ≤ '9'

/-- split at the last `:`: (before, after) -/
def splitLastColon (s : List Char) : Option (List Char × List Char) :=
  match s with
  | [] => none
  | c :: t =>
    match splitLastColon t with
    | some (a, b) => some (c :: a, b)
    | none => if c = ':' then some ([], t) else none

def digitsVal (ds : List Char) : Nat := ds.foldl (fun a c => 10 * a + (c.toNat - 48)) 0

def natChars (n : Nat) : List Char :=
  if n < 10 then [Char.ofNat (48 + n)] else natChars (n / 10) ++ [Char.ofNat (48 + n % 10)]
termination_by n
decreasing_by omega

/-- `FromStr for HostPort` (ASCII digits in the port) -/
def parse (hostParse : List Char → Option Host) (text : List Char) : Except PErr (Host × Nat) :=
  match splitLastColon text with
  | none => .error .portMissing
  | some (h, p) =>
    if p.isEmpty || !p.all isDigitCh || h.contains '\n' then .error .portMissing
    else match hostParse h with
      | none => .error .host
      | some host => if digitsVal p < 65536 then .ok (host, digitsVal p) else .error .port

/-- `Display for HostPort` -/
def display (hostShow : Host → List Char) (hp : Host × Nat) : List Char :=
  hostShow hp.1 ++ [':'] ++ natChars hp.2

/-- `Serialize`: `[host text, port]`; `pairShow` prints the host without brackets -/
def toPair (pairShow : Host → List Char) (hp : Host × Nat) : List Char × Nat := (pairShow hp.1, hp.2)

/-- `Deserialize`: brackets re-added when the text contains a colon -/
def ofPair (hostParse : List Char → Option Host) (p : List Char × Nat) : Option (Host × Nat) :=
  let text := if p.1.contains ':' then ['['] ++ p.1 ++ [']'] else p.1
  (hostParse text).map fun h => (h, p.2)

/-! ## concrete hosts (driver) -/

def hexVal (c : Char) : Option Nat :=
  if '0' ≤ c ∧ c ≤ '9' then some (c.toNat - 48)
  else if 'a' ≤ c ∧ c ≤ 'f' then some (c.toNat - 87)
  else if 'A' ≤ c ∧ c ≤ 'F' then some (c.toNat - 55)
  else none

def splitOnCh (sep : Char) (s : List Char) : List (List Char) :=
  s.foldr (fun c acc => if c = sep then [] :: acc else match acc with
    | [] => [[c]]
    | h :: t => (c :: h) :: t) [[]]

def radixVal (r : Nat) (s : List Char) : Option Nat :=
  s.foldl (fun acc c => match acc, hexVal c with
    | some a, some d => if d < r then some (a * r + d) else none
    | _, _ => none) (some 0)

/-- `parse_ipv4number`: `none` = invalid; `some none` = overflow -/
def ipv4Number (s : List Char) : Option (Option Nat) :=
  if s.isEmpty then none else
  let (r, body) :=
    match s with
    | '0' :: 'x' :: t => (16, t)
    | '0' :: 'X' :: t => (16, t)
    | '0' :: c :: t => (8, c :: t)
    | _ => (10, s)
  if body.isEmpty then some (some 0) else
  match radixVal r body with
  | none => none
  | some v => if v < 2 ^ 32 then some (some v) else some none

def endsInNumber (s : List Char) : Bool :=
  let parts := (splitOnCh '.' s).reverse
  let last := match parts with
    | [] => []
    | l :: rest => if l.isEmpty then (match rest with | l2 :: _ => l2 | [] => []) else l
  if (splitOnCh '.' s).length == 1 && s.isEmpty then false else
  (!last.isEmpty && last.all isDigitCh) || (ipv4Number last).isSome

/-- WHATWG IPv4 parser -/
def parseIpv4 (s : List Char) : Option Nat :=
  let parts0 := splitOnCh '.' s
  let parts := if parts0.getLast? == some [] then parts0.dropLast else parts0
  if parts.length > 4 || parts.isEmpty then none else
  let nums := parts.map ipv4Number
  if nums.any (fun n => match n with | some (some _) => false | _ => true) then none else
  let vals := nums.filterMap fun n => n.join
  let last := vals.getLast!
  let front := vals.dropLast
  if last ≥ 256 ^ (4 - front.length) then none
  else if front.any (· > 255) then none
  else some (last + (front.zipIdx.map fun (n, i) => n * 256 ^ (3 - i)).sum)

def showIpv4 (n : Nat) : List Char :=
  natChars (n / 2 ^ 24 % 256) ++ ['.'] ++ natChars (n / 2 ^ 16 % 256) ++ ['.'] ++ natChars (n / 2 ^ 8 % 256) ++ ['.'] ++ natChars (n % 256)

def isHexGroup (g : List Char) : Bool := !g.isEmpty && g.length ≤ 4 && g.all (fun c => (hexVal c).isSome)

def hexGroupVal (g : List Char) : Nat := g.foldl (fun a c => a * 16 + (hexVal c).getD 0) 0

/-- dotted IPv4 tail of an IPv6 literal: four decimal numbers ≤ 255 without leading zeros -/
def ipv4Tail (g : List Char) : Option (Nat × Nat) :=
  let parts := splitOnCh '.' g
  if parts.length != 4 then none else
  if parts.all (fun p => !p.isEmpty && p.all isDigitCh && (p.length == 1 || p.head? != some '0') && digitsVal p ≤ 255) then
    match parts.map digitsVal with
    | [a, b, c, d] => some (a * 256 + b, c * 256 + d)
    | _ => none
  else none

/-- groups → 16-bit values; the last group may be a dotted IPv4 tail -/
def groupsVals (gs : List (List Char)) (allowTail : Bool) : Option (List Nat) :=
  match gs with
  | [] => some []
  | [g] =>
    if isHexGroup g then some [hexGroupVal g]
    else if allowTail && g.contains '.' then (ipv4Tail g).map fun (a, b) => [a, b]
    else none
  | g :: t => if isHexGroup g then (groupsVals t allowTail).map (hexGroupVal g :: ·) else none

def findDoubleColon : List Char → Option (List Char × List Char)
  | ':' :: ':' :: t => some ([], t)
  | c :: t => (findDoubleColon t).map fun (a, b) => (c :: a, b)
  | [] => none

/-- WHATWG IPv6 parser (text without brackets) -/
def parseIpv6 (s : List Char) : Option (List Nat) :=
  match findDoubleColon s with
  | none =>
    match groupsVals (splitOnCh ':' s) true with
    | some vs => if vs.length == 8 then some vs else none
    | none => none
  | some (l, r) =>
    if r.head? == some ':' || (findDoubleColon r).isSome then none else
    let lg := if l.isEmpty then some [] else groupsVals (splitOnCh ':' l) false
    let rg := if r.isEmpty then some [] else groupsVals (splitOnCh ':' r) true
    match lg, rg with
    | some a, some b =>
      if a.length + b.length ≤ 7 then some (a ++ List.replicate (8 - a.length - b.length) 0 ++ b) else none
    | _, _ => none

def hexChars (n : Nat) : List Char :=
  let d (k : Nat) : Char := if k < 10 then Char.ofNat (48 + k) else Char.ofNat (87 + k)
  if n < 16 then [d n] else if n < 256 then [d (n / 16), d (n % 16)]
  else if n < 4096 then [d (n / 256), d (n / 16 % 16), d (n % 16)]
  else [d (n / 4096 % 16), d (n / 256 % 16), d (n / 16 % 16), d (n % 16)]

/-- first longest run of zeros of length ≥ 2: (start, length) -/
def longestZeroRun (segs : List Nat) : Option (Nat × Nat) :=
  let rec go (i : Nat) (l : List Nat) (cur : Option (Nat × Nat)) (best : Option (Nat × Nat)) : Option (Nat × Nat) :=
    let fin (cur best : Option (Nat × Nat)) : Option (Nat × Nat) :=
      match cur, best with
      | some (s, n), some (_, bn) => if n > bn then some (s, n) else best
      | some c, none => some c
      | none, b => b
    match l with
    | [] => fin cur best
    | x :: t =>
      if x = 0 then
        match cur with
        | some (s, n) => go (i + 1) t (some (s, n + 1)) best
        | none => go (i + 1) t (some (i, 1)) best
      else go (i + 1) t none (fin cur best)
  match go 0 segs none none with
  | some (s, n) => if n ≥ 2 then some (s, n) else none
  | none => none

def joinColon (gs : List (List Char)) : List Char :=
  match gs with
  | [] => []
  | [g] => g
  | g :: t => g ++ [':'] ++ joinColon t

/-- compressed lower-hex form shared by both printers -/
def showIpv6Plain (segs : List Nat) : List Char :=
  match longestZeroRun segs with
  | none => joinColon (segs.map hexChars)
  | some (s, n) =>
    joinColon ((segs.take s).map hexChars) ++ [':', ':'] ++ joinColon ((segs.drop (s + n)).map hexChars)

/-- url's `write_ipv6` -/
def showIpv6Url (segs : List Nat) : List Char := showIpv6Plain segs

/-- std's `Display for Ipv6Addr`: IPv4-mapped addresses print a dotted tail -/
def showIpv6Std (segs : List Nat) : List Char :=
  match segs with
  | [0, 0, 0, 0, 0, 65535, a, b] => "::ffff:".toList ++ showIpv4 (a * 65536 + b)
  | _ => showIpv6Plain segs

def lowerAscii (c : Char) : Char := if 'A' ≤ c ∧ c ≤ 'Z' then Char.ofNat (c.toNat + 32) else c

def forbiddenHostCh (c : Char) : Bool :=
  c.toNat ≤ 0x20 || c == '#' || c == '%' || c == '/' || c == ':' || c == '<' || c == '>' || c == '?' || c == '@' ||
  c == '[' || c == '\\' || c == ']' || c == '^' || c.toNat == 0x7f || c == '|'

def isLdh (c : Char) : Bool := c.isAlphanum || c == '-' || c == '.'

inductive HostResult where
  | ok (h : Host) | reject | outOfModel

/-- `url::Host::parse` on the modelled sub-language -/
def hostParseC (s : List Char) : HostResult :=
  if s.head? == some '[' then
    if s.getLast? != some ']' then .reject else
    match parseIpv6 (s.drop 1).dropLast with
    | some segs => .ok (.ipv6 segs)
    | none => .reject
  else if s.isEmpty then .reject
  else if s.any (fun c => c == '%' || c.toNat ≥ 128) then .outOfModel
  else if s.any forbiddenHostCh then .reject
  else if !s.all isLdh then .outOfModel
  else
    let d := s.map lowerAscii
    if (splitOnCh '.' d).any (fun l => l.take 4 == "xn--".toList) then .outOfModel
    else if endsInNumber d then
      match parseIpv4 d with
      | some n => .ok (.ipv4 n)
      | none => .reject
    else .ok (.domain d)

def hostParseOpt (s : List Char) : Option Host :=
  match hostParseC s with
  | .ok h => some h
  | _ => none

def hostShowUrl : Host → List Char
  | .domain s => s
  | .ipv4 n => showIpv4 n
  | .ipv6 segs => ['['] ++ showIpv6Url segs ++ [']']

def hostShowPair : Host → List Char
  | .domain s => s
  | .ipv4 n => showIpv4 n
  | .ipv6 segs => showIpv6Std segs

end Imdlv.HostPort
