import Imdlv.Model.Basic
/-!
# Bencode: values, canonical encoder, strict decoder (mirrors bendy 0.3.3)

`decode` follows bendy's tokenizer and `Value::decode_bencode_object`:
* integers `i[-]digits e`: no leading zeros, no `-0`, at least one digit; the value must fit `i64`;
* strings `len:bytes`: the length uses the same digit grammar (`0` or `[1-9][0-9]*`), must fit `usize`;
* dictionary keys strictly ascending as byte strings (so no duplicates), keys must be strings;
* nesting limited by `depth` (bendy: `max_depth`; unlimited for `Value` before the repair);
* bytes after the top-level value are not examined.
Fuel only makes the recursion structural; `decode b.length+1` is always enough.
-/
namespace Imdlv.Bencode

mutual
inductive BVal where
  | int (neg : Bool) (n : Nat)
  | bytes (b : Bytes)
  | list (l : BList)
  | dict (d : BDict)
inductive BList where
  | nil
  | cons (v : BVal) (t : BList)
inductive BDict where
  | nil
  | cons (k : Bytes) (v : BVal) (t : BDict)
end

def isDigit (b : UInt8) : Bool := 48 ≤ b && b ≤ 57

/-- decimal digits, most significant first; `0 ↦ "0"` -/
def natDigits (n : Nat) : Bytes :=
  if n < 10 then [UInt8.ofNat (48 + n)] else natDigits (n / 10) ++ [UInt8.ofNat (48 + n % 10)]
termination_by n
decreasing_by omega

def dval (d : UInt8) : Nat := d.toNat - 48

def digitsToNat (ds : Bytes) : Nat := ds.foldl (fun a d => 10 * a + dval d) 0

/-- canonical decimal: non-empty, all digits, no leading zero unless exactly "0" -/
def canonDigits (ds : Bytes) : Bool :=
  ds.all isDigit && (match ds with
    | [] => false
    | [_] => true
    | d :: _ => d != 48)

def spanDigits : Bytes → Bytes × Bytes
  | [] => ([], [])
  | b :: t => if isDigit b then ((b :: (spanDigits t).1), (spanDigits t).2) else ([], b :: t)

def encBytes (b : Bytes) : Bytes := natDigits b.length ++ [58] ++ b

mutual
def encode : BVal → Bytes
  | .int neg n => [105] ++ (if neg then [45] else []) ++ natDigits n ++ [101]
  | .bytes b => encBytes b
  | .list l => [108] ++ encodeList l ++ [101]
  | .dict d => [100] ++ encodeDict d ++ [101]
def encodeList : BList → Bytes
  | .nil => []
  | .cons v t => encode v ++ encodeList t
def encodeDict : BDict → Bytes
  | .nil => []
  | .cons k v t => encBytes k ++ encode v ++ encodeDict t
end

/-- strict string: canonical length, `:`, that many bytes; the length must fit `usize` -/
def decBytes (l : Bytes) : Option (Bytes × Bytes) :=
  let ds := (spanDigits l).1
  let r := (spanDigits l).2
  if canonDigits ds && decide (digitsToNat ds < 2 ^ 64) then
    match r with
    | 58 :: r' =>
      let n := digitsToNat ds
      if n ≤ r'.length then some (r'.take n, r'.drop n) else none
    | _ => none
  else none

/-- integer token after the `i`: optional `-`, canonical digits (not `-0`), `e` -/
def decInt (t : Bytes) : Option ((Bool × Nat) × Bytes) :=
  let neg := t.head? == some 45
  let t' := if neg then t.tail else t
  let ds := (spanDigits t').1
  let r := (spanDigits t').2
  if canonDigits ds && !(neg && ds == [48]) then
    match r with
    | 101 :: r' => some ((neg, digitsToNat ds), r')
    | _ => none
  else none

/-- `text.parse::<i64>()` succeeds -/
def inI64 (neg : Bool) (n : Nat) : Bool := if neg then n ≤ 2 ^ 63 else n < 2 ^ 63

def bytesLt : Bytes → Bytes → Bool
  | [], [] => false
  | [], _ :: _ => true
  | _ :: _, [] => false
  | a :: as, b :: bs => a < b || (a == b && bytesLt as bs)

def keyOk (last : Option Bytes) (k : Bytes) : Bool :=
  match last with
  | none => true
  | some p => bytesLt p k

/-- first-byte classification shared by the decoder and the scanner -/
inductive Tok where
  | eof | int (t : Bytes) | list (t : Bytes) | dict (t : Bytes) | other

def tok : Bytes → Tok
  | [] => .eof
  | 105 :: t => .int t
  | 108 :: t => .list t
  | 100 :: t => .dict t
  | _ => .other

/-- the `e` that closes a list or dictionary -/
def endTok : Bytes → Option Bytes
  | 101 :: r => some r
  | _ => none

mutual
/-- `depth` = how many more containers may be opened -/
def decode : Nat → Nat → Bytes → Option (BVal × Bytes)
  | 0, _, _ => none
  | fuel + 1, depth, l =>
    match tok l with
    | .eof => none
    | .int t =>
      match decInt t with
      | some ((neg, n), r) => if inI64 neg n then some (.int neg n, r) else none
      | none => none
    | .list t =>
      if depth = 0 then none else
      match decodeList fuel (depth - 1) t with
      | some (l, r) => some (.list l, r)
      | none => none
    | .dict t =>
      if depth = 0 then none else
      match decodeDict fuel (depth - 1) none t with
      | some (d, r) => some (.dict d, r)
      | none => none
    | .other =>
      match decBytes l with
      | some (b, r) => some (.bytes b, r)
      | none => none
def decodeList : Nat → Nat → Bytes → Option (BList × Bytes)
  | 0, _, _ => none
  | fuel + 1, depth, l =>
    match endTok l with
    | some r => some (.nil, r)
    | none =>
      match decode fuel depth l with
      | none => none
      | some (v, r) =>
        match decodeList fuel depth r with
        | none => none
        | some (t, r') => some (.cons v t, r')
def decodeDict : Nat → Nat → Option Bytes → Bytes → Option (BDict × Bytes)
  | 0, _, _, _ => none
  | fuel + 1, depth, last, l =>
    match endTok l with
    | some r => some (.nil, r)
    | none =>
      match decBytes l with
      | none => none
      | some (k, r) =>
        if keyOk last k then
          match decode fuel depth r with
          | none => none
          | some (v, r') =>
            match decodeDict fuel depth (some k) r' with
            | none => none
            | some (t, r'') => some (.cons k v t, r'')
        else none
end

/-- decode the value at the start of `b` (trailing bytes allowed) -/
def decodeTop (depth : Nat) (b : Bytes) : Option (BVal × Bytes) := decode (b.length + 1) depth b

def BDict.lookup (key : Bytes) : BDict → Option BVal
  | .nil => none
  | .cons k v t => if k = key then some v else t.lookup key

def BDict.toList : BDict → List (Bytes × BVal)
  | .nil => []
  | .cons k v t => (k, v) :: t.toList

def BList.toList : BList → List BVal
  | .nil => []
  | .cons v t => v :: t.toList

def BList.ofList : List BVal → BList
  | [] => .nil
  | v :: t => .cons v (BList.ofList t)

def BDict.ofList : List (Bytes × BVal) → BDict
  | [] => .nil
  | (k, v) :: t => .cons k v (BDict.ofList t)

/-! ## Value-free scanner (what an independent tool does to locate a key) -/

mutual
/-- skip one value, returning the rest; no value is built, key order is not checked -/
def skip : Nat → Bytes → Option Bytes
  | 0, _ => none
  | fuel + 1, l =>
    match tok l with
    | .eof => none
    | .int t => (decInt t).map (·.2)
    | .list t => skipItems fuel t
    | .dict t => skipPairs fuel t
    | .other => (decBytes l).map (·.2)
def skipItems : Nat → Bytes → Option Bytes
  | 0, _ => none
  | fuel + 1, l =>
    match endTok l with
    | some r => some r
    | none => match skip fuel l with
      | none => none
      | some r => skipItems fuel r
def skipPairs : Nat → Bytes → Option Bytes
  | 0, _ => none
  | fuel + 1, l =>
    match endTok l with
    | some r => some r
    | none => match decBytes l with
      | none => none
      | some (_, r) => match skip fuel r with
        | none => none
        | some r' => skipPairs fuel r'
end

/-- scan the pairs of a dictionary body for `key`; returns the exact bytes of its value -/
def findInPairs (key : Bytes) : Nat → Bytes → Option Bytes
  | 0, _ => none
  | fuel + 1, l =>
    match endTok l with
    | some _ => none
    | none => match decBytes l with
      | none => none
      | some (k, r) => match skip fuel r with
        | none => none
        | some r' =>
          if k = key then some (r.take (r.length - r'.length))
          else findInPairs key fuel r'

/-- exact byte span of the value stored under top-level `key` of the dictionary at the start of `b` -/
def findSpan (key : Bytes) (b : Bytes) : Option Bytes :=
  match tok b with
  | .dict t => findInPairs key (t.length + 1) t
  | _ => none

end Imdlv.Bencode
