import Imdlv.Model.Hasher
/-!
# Model of `src/verifier.rs`, `src/file_error.rs`, `src/status.rs` (C02, C03, C13)

The file system seen by `verify` is a function from the listed component list
(relative to the content root) to a `Node`; theorems quantify over all such
functions. Digests are parameters (`H` = SHA-1, `H5` = MD5).

Repaired behaviour modelled (see known_findings.json, `fixed:` entries):
`Verifier::new` refuses piece length 0 and any listed path with a component
that is not a single normal path component.
-/
namespace Imdlv.Verifier
open Imdlv Imdlv.Hasher

inductive Node where
  | file (b : Bytes)
  | dir
  | missing
  | ioError
deriving DecidableEq, Repr

abbrev Comp := Bytes
abbrev RelPath := List Comp

structure FileEntry (ε : Type) where
  path : RelPath
  length : Nat
  md5 : Option ε

inductive Mode (ε : Type) where
  | single (length : Nat) (md5 : Option ε)
  | multiple (files : List (FileEntry ε))

structure Torrent (δ ε : Type) where
  pieceLength : Nat
  pieces : List δ
  mode : Mode ε

abbrev FS := RelPath → Node

/-- a single normal path component: what `Path::new(c).components()` yields as
exactly one `Normal` equal to `c` — non-empty, not `.`/`..`, no separator -/
def isNormalComp (c : Comp) : Bool :=
  !c.isEmpty && c != [46] && c != [46, 46] && !c.contains 47

inductive FileErr where
  | io | missing | directory | surfeit (d : Nat) | dearth (d : Nat) | md5
deriving DecidableEq, Repr

inductive Refusal where
  | pieceLengthTooLarge | pieceLengthZero | pathComponent
deriving DecidableEq, Repr

/-- `FileError::verify` -/
def fileError {ε : Type} [DecidableEq ε] (H5 : Bytes → ε) (node : Node) (len : Nat) (md5 : Option ε) :
    Option FileErr :=
  match node with
  | .missing => some .missing
  | .ioError => some .io
  | .dir => some .directory
  | .file b =>
    if b.length > len then some (.surfeit (b.length - len))
    else if b.length < len then some (.dearth (len - b.length))
    else match md5 with
      | none => none
      | some e => if H5 b = e then none else some .md5

/-- the listed entries in order (single-file mode lists the root itself) -/
def entries {δ ε : Type} (t : Torrent δ ε) : List (FileEntry ε) :=
  match t.mode with
  | .single len md5 => [{ path := [], length := len, md5 := md5 }]
  | .multiple fs => fs

/-- bytes `Verifier::hash` feeds to the running piece state for one path:
a regular file's content; nothing when the open or the read fails -/
def hashed (fs : FS) (p : RelPath) : Bytes :=
  match fs p with
  | .file b => b
  | _ => []

structure Status where
  piecesOk : Bool
  errors : List (RelPath × FileErr)
deriving Repr

def Status.good (s : Status) : Bool := s.piecesOk && s.errors.isEmpty

/-- `Verifier::verify`: `scheds` gives the read schedule per listed file (any) -/
def verify {δ ε : Type} [DecidableEq δ] [DecidableEq ε] (H : Bytes → δ) (H5 : Bytes → ε)
    (t : Torrent δ ε) (fs : FS) (scheds : List (List Nat)) : Except Refusal Status :=
  if t.pieceLength ≥ 2 ^ 32 then .error .pieceLengthTooLarge
  else if t.pieceLength = 0 then .error .pieceLengthZero
  else if (entries t).any (fun f => f.path.any (fun c => !isNormalComp c)) then .error .pathComponent
  else
    let es := entries t
    let streams := es.zipIdx.map fun (f, i) => (hashed fs f.path, scheds.getD i [])
    let blocks := (hashFiles t.pieceLength streams).1
    let errs := es.filterMap fun f => (fileError H5 (fs f.path) f.length f.md5).map fun e => (f.path, e)
    .ok { piecesOk := decide (blocks.map H = t.pieces), errors := errs }

/-- exit status 0 -/
def succeeds {δ ε : Type} [DecidableEq δ] [DecidableEq ε] (H : Bytes → δ) (H5 : Bytes → ε)
    (t : Torrent δ ε) (fs : FS) (scheds : List (List Nat)) : Bool :=
  match verify H H5 t fs scheds with
  | .ok s => s.good
  | .error _ => false

/-! ## Specification (independent recomputation) -/

/-- every listed path is a regular file of the listed length (and MD5 when present) -/
def fileOk {ε : Type} [DecidableEq ε] (H5 : Bytes → ε) (fs : FS) (f : FileEntry ε) : Bool :=
  match fs f.path with
  | .file b => b.length == f.length && (match f.md5 with | none => true | some e => decide (H5 b = e))
  | _ => false

/-- the files' concatenation -/
def concatOf {ε : Type} (fs : FS) (es : List (FileEntry ε)) : Bytes :=
  (es.map fun f => hashed fs f.path).flatten

def verifySpec {δ ε : Type} [DecidableEq δ] [DecidableEq ε] (H : Bytes → δ) (H5 : Bytes → ε)
    (t : Torrent δ ε) (fs : FS) : Bool :=
  (entries t).all (fileOk H5 fs) &&
    decide ((chunks t.pieceLength (concatOf fs (entries t))).map H = t.pieces)

/-! ## Lexical confinement (C13) -/

/-- split a raw component at `/` -/
def splitSlash (c : Comp) : List Comp :=
  c.foldr (fun b acc => if b = 47 then [] :: acc else match acc with
    | [] => [[b]]
    | h :: t => (b :: h) :: t) [[]]

/-- Walk the raw components lexically from the root at depth 0: `..` goes up,
a normal segment goes down, `.` and empty segments (doubled or trailing
slashes) stay, a component starting with `/` is absolute. `none` = the path
has left the root at some point. -/
def lexWalk : Option Nat → List Comp → Option Nat
  | d, [] => d
  | none, _ => none
  | some d, c :: t =>
    if c.head? = some 47 then none
    else
      let d' := (splitSlash c).foldl (fun (d : Option Nat) (seg : Comp) =>
        match d with
        | none => none
        | some d =>
          if seg = [46, 46] then (if d = 0 then none else some (d - 1))
          else if seg = [] ∨ seg = [46] then some d
          else some (d + 1)) (some d)
      lexWalk d' t

/-- the listed path, resolved lexically, leaves the content root -/
def leavesRoot (p : RelPath) : Bool := (lexWalk (some 0) p).isNone

end Imdlv.Verifier
