/-!
# Model of the output streams and exit status (C18): `src/env.rs`, `src/output_stream.rs`

Stream state = `{active, style, term}` initialised from `NO_COLOR`, `TERM`, tty
detection, then adjusted by `--color`, `--terminal`, `--quiet`. A command is a
list of writes tagged with the stream and whether the text is payload, chatter
(banners, progress, "Done") or an error diagnostic. Painted text carries escape
sequences only when the stream's `style` is on.
-/
namespace Imdlv.Streams

structure Stream where
  active : Bool
  style : Bool
  term : Bool
deriving DecidableEq, Repr

inductive UseColor where | auto | always | never
deriving DecidableEq, Repr

structure Config where
  noColor : Bool        -- NO_COLOR set
  termDumb : Bool       -- TERM=dumb
  ttyOut : Bool
  ttyErr : Bool
  color : UseColor
  terminal : Bool       -- --terminal
  quiet : Bool          -- --quiet
deriving DecidableEq, Repr

def envStyle (c : Config) : Bool := !c.noColor && !c.termDumb

def applyColor (u : UseColor) (s : Stream) : Stream :=
  match u with
  | .always => { s with style := true }
  | .auto => s
  | .never => { s with style := false }

/-- `OutputStream::stdout` then `Env::run` adjustments -/
def outStream (c : Config) : Stream :=
  let s : Stream := { active := true, style := envStyle c && c.ttyOut, term := c.ttyOut }
  let s := applyColor c.color s
  if c.terminal then { s with term := true } else s

/-- `OutputStream::stderr` then `Env::run` adjustments -/
def errStream (c : Config) : Stream :=
  let s : Stream := { active := true, style := envStyle c, term := envStyle c && c.ttyErr }
  let s := applyColor c.color s
  let s := if c.terminal then { s with term := true } else s
  if c.quiet then { s with active := false } else s

/-- Spinners and progress bars (`indicatif`) are drawn straight onto the terminal, past the `OutputStream`: create's file
search spinner, create's and verify's hashing progress bars. They exist when standard error is a styled terminal and
`--quiet` was not given (the repaired `CreateContent::from_create`; `Create::run`, `Verify::run`). -/
def progressDrawn (c : Config) : Bool :=
  (errStream { c with quiet := false }).style && (errStream { c with quiet := false }).term && !c.quiet

inductive Target where | out | err
deriving DecidableEq, Repr

inductive Kind where | payload | chatter | diagnostic
deriving DecidableEq, Repr

structure Write where
  target : Target
  kind : Kind
  /-- text; `styled` parts are wrapped in escape sequences when the stream's style is on -/
  text : List UInt8
  styled : Bool
deriving DecidableEq, Repr

def esc : UInt8 := 27

/-- `style.paint(text)` -/
def paint (style : Bool) (w : Write) : List UInt8 :=
  if style && w.styled then [esc, 91, 49, 109] ++ w.text ++ [esc, 91, 48, 109] else w.text

/-- bytes that reach the file descriptor -/
def emitted (c : Config) (t : Target) (ws : List Write) : List UInt8 :=
  let s := match t with | .out => outStream c | .err => errStream c
  if s.active then ((ws.filter (·.target == t)).map (paint s.style)).flatten else []

inductive Outcome where | ok | failed | usage | helpOrVersion
deriving DecidableEq, Repr

/-- `Env::status` / `main` -/
def exitCode : Outcome → Nat
  | .ok => 0
  | .helpOrVersion => 0
  | .failed => 1
  | .usage => 1

end Imdlv.Streams
