import Imdlv.Generated.Consts
import Imdlv.Model.Basic
/-!
# Model of `src/walker.rs`, `src/sort_spec.rs`, `src/file_path.rs` ordering (C06)

The tree is what the directory walk sees: regular files, directories, symlinks
to files and to directories (acyclic, unbroken), and other nodes. Enumeration
order is the order of `Entries`; theorems show the listed result does not
depend on it. Glob matching is a parameter (`m`).
-/
namespace Imdlv.Walker

mutual
inductive Node where
  | file (size : Nat)
  | dir (es : Entries)
  | linkFile (size : Nat)
  | linkDir (es : Entries)
  | other
inductive Entries where
  | nil
  | cons (name : Bytes) (n : Node) (t : Entries)
end

structure FileE where
  path : List Bytes
  size : Nat
deriving DecidableEq, Repr

structure Flags where
  includeHidden : Bool
  includeJunk : Bool
  follow : Bool
deriving DecidableEq, Repr

/-- name starts with `.` -/
def isHidden (name : Bytes) : Bool := name.head? == some 46

mutual
/-- files found at or below a node whose root-relative path is `path` -/
def walkNode (fl : Flags) (path : List Bytes) : Node → List FileE
  | .file s => [⟨path, s⟩]
  | .dir es => walkEntries fl path es
  | .linkFile s => if fl.follow then [⟨path, s⟩] else []
  | .linkDir es => if fl.follow then walkEntries fl path es else []
  | .other => []
/-- directory walk with pruning: a hidden entry is skipped together with its subtree -/
def walkEntries (fl : Flags) (pre : List Bytes) : Entries → List FileE
  | .nil => []
  | .cons name n t =>
    (if isHidden name && !fl.includeHidden then [] else walkNode fl (pre ++ [name]) n)
      ++ walkEntries fl pre t
end

structure Pattern (π : Type) where
  glob : π
  incl : Bool

/-- `Walker::pattern_filter`: scan the patterns last to first; default is the
opposite polarity of the first pattern; no patterns ⇒ include -/
def patternFilter {π : Type} (m : π → List Bytes → Bool) (pats : List (Pattern π)) (path : List Bytes) : Bool :=
  match pats.reverse.find? (fun p => m p.glob path) with
  | some p => p.incl
  | none =>
    match pats.head? with
    | some p => !p.incl
    | none => true

def isJunk (path : List Bytes) : Bool :=
  match path.getLast? with
  | some name => Consts.junkNames.contains name
  | none => false

def keep {π : Type} (fl : Flags) (m : π → List Bytes → Bool) (pats : List (Pattern π)) (e : FileE) : Bool :=
  patternFilter m pats e.path && (fl.includeJunk || !isJunk e.path)

inductive SortKey where | path | size
deriving DecidableEq, Repr
inductive SortOrder where | ascending | descending
deriving DecidableEq, Repr
structure SortSpec where
  key : SortKey
  order : SortOrder
deriving DecidableEq, Repr

/-- `SortSpec::compare_file_info`; paths compare component-wise (derived `Ord`
on the component vector), components byte-wise -/
def specCmp (s : SortSpec) (a b : FileE) : Ordering :=
  let o := match s.key with
    | .path => compare a.path b.path
    | .size => compare a.size b.size
  match s.order with
  | .ascending => o
  | .descending => o.swap

def defaultSpec : SortSpec := ⟨.path, .ascending⟩

/-- `SortSpec::compare`: fold the keys left to right with an appended path-ascending default -/
def compareSpecs (specs : List SortSpec) (a b : FileE) : Ordering :=
  (specs ++ [defaultSpec]).foldl (fun o s => o.then (specCmp s a b)) .eq

def le (specs : List SortSpec) (a b : FileE) : Bool := (compareSpecs specs a b).isLE

/-- `file_infos.sort_by(...)` -/
def sortFiles (specs : List SortSpec) (l : List FileE) : List FileE := l.mergeSort (le specs)

/-- what the torrent lists for a directory input, given the enumerated files -/
def listed {π : Type} (fl : Flags) (m : π → List Bytes → Bool) (pats : List (Pattern π)) (specs : List SortSpec)
    (found : List FileE) : List FileE :=
  sortFiles specs (found.filter (keep fl m pats))

inductive Refused where | symlinkRoot
deriving DecidableEq, Repr

inductive Listing where
  | single (size : Nat)
  | multiple (files : List FileE)

/-- `Walker::files` -/
def files {π : Type} (fl : Flags) (m : π → List Bytes → Bool) (pats : List (Pattern π)) (specs : List SortSpec)
    (root : Node) : Except Refused Listing :=
  match root with
  | .linkFile s => if fl.follow then .ok (.single s) else .error .symlinkRoot
  | .linkDir es => if fl.follow then .ok (.multiple (listed fl m pats specs (walkEntries fl [] es))) else .error .symlinkRoot
  | .file s => .ok (.single s)
  | .dir es => .ok (.multiple (listed fl m pats specs (walkEntries fl [] es)))
  | .other => .ok (.multiple [])

/-! ## a small glob matcher for the generated sub-language (driver only) -/

inductive GTok where
  | lit (c : UInt8) | any | star | cls (neg : Bool) (cs : List UInt8)
deriving Repr

def parseGlobAux : Nat → Bytes → List GTok
  | 0, _ => []
  | _, [] => []
  | f + 1, 42 :: t => .star :: parseGlobAux f (t.dropWhile (· == 42))
  | f + 1, 63 :: t => .any :: parseGlobAux f t
  | f + 1, 91 :: t =>
    let neg := t.head? == some 33
    let t' := if neg then t.tail else t
    let body := t'.takeWhile (· != 93)
    .cls neg body :: parseGlobAux f (t'.dropWhile (· != 93)).tail
  | f + 1, c :: t => .lit c :: parseGlobAux f t

def parseGlob (g : Bytes) : List GTok := parseGlobAux (g.length + 1) g

def matchToks : Nat → List GTok → Bytes → Bool
  | 0, _, _ => false
  | _, [], s => s.isEmpty
  | f + 1, .star :: ts, s => matchToks f ts s || (match s with | [] => false | _ :: s' => matchToks f (.star :: ts) s')
  | f + 1, .lit c :: ts, x :: s => c == x && matchToks f ts s
  | f + 1, .any :: ts, _ :: s => matchToks f ts s
  | f + 1, .cls neg cs :: ts, x :: s => (cs.contains x != neg) && matchToks f ts s
  | _, _ :: _, [] => false

def joinPath : List Bytes → Bytes
  | [] => []
  | [c] => c
  | c :: t => c ++ [47] ++ joinPath t

/-- match a glob (bytes) against the whole root-relative path -/
def globMatch (g : Bytes) (path : List Bytes) : Bool :=
  let toks := parseGlob g
  let s := joinPath path
  matchToks (2 * (toks.length + s.length) + 2) toks s

end Imdlv.Walker
