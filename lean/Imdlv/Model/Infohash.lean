import Imdlv.Model.Bencode
/-! # Model of `src/infohash.rs` `Infohash::from_input` (C04) -/
namespace Imdlv.Infohash
open Imdlv Imdlv.Bencode

/-- `"info"` -/
def infoKey : Bytes := [105, 110, 102, 111]

inductive IErr where
  | decode | type | infoMissing | infoType
deriving DecidableEq, Repr

/-- decode to a generic value, locate `info`, re-encode it canonically, hash.
`depth` is the nesting limit of the generic decoder. -/
def infohashFromInput {δ : Type} (H : Bytes → δ) (depth : Nat) (b : Bytes) : Except IErr δ :=
  match decodeTop depth b with
  | none => .error .decode
  | some (.dict d, _) =>
    match d.lookup infoKey with
    | none => .error .infoMissing
    | some (.dict i) => .ok (H (encode (.dict i)))
    | some _ => .error .infoType
  | some _ => .error .type

/-- S: hash of the exact stored span of the `info` value, found without building values -/
def infohashSpec {δ : Type} (H : Bytes → δ) (b : Bytes) : Option δ := (findSpan infoKey b).map H

end Imdlv.Infohash
