import Imdlv.Model.Load
import Imdlv.Model.ByteSize
import Imdlv.Model.Magnet
/-!
# Partial operations on the local-input paths, as explicit `panic` outcomes (C08)

Each Rust operation that can panic on a path reachable from local input is
written here with its failure as `Outcome.panic site`; the pipelines compose
them in the order the code does. `Props/C08.lean` proves no pipeline reaches a
`panic` on any byte string.
-/
namespace Imdlv.NoPanic
open Imdlv Imdlv.Bencode Imdlv.Metainfo Imdlv.Load

inductive Outcome (α : Type) where
  | ok (a : α)
  | error
  | panic (site : String)
deriving Repr

def Outcome.bind {α β : Type} (o : Outcome α) (f : α → Outcome β) : Outcome β :=
  match o with
  | .ok a => f a
  | .error => .error
  | .panic s => .panic s

def Outcome.isPanic {α : Type} : Outcome α → Bool
  | .panic _ => true
  | _ => false

/-- `Bytes += Bytes` on `u64` with overflow checks on (debug profile) -/
def addU64 (a b : Nat) : Outcome Nat := if a + b < 2 ^ 64 then .ok (a + b) else .panic "bytes.rs: attempt to add with overflow"

/-- `Mode::content_size`: `files.iter().map(length).sum()` -/
def sumLengths (l : List Nat) : Outcome Nat :=
  l.foldl (fun acc x => acc.bind fun s => addU64 s x) (.ok 0)

/-- `DISPLAY_SUFFIXES[i - 1]` in `Display for Bytes` -/
def suffixAt (i : Nat) : Outcome String :=
  if i = 0 then .ok "bytes"
  else match Consts.displaySuffixes[i - 1]? with
    | some s => .ok s
    | none => .panic "bytes.rs: index out of bounds"

/-- `Display for Bytes` -/
def displaySize (n : Nat) : Outcome String :=
  (suffixAt (ByteSize.unitIndex (ByteSize.round53 n))).bind fun s => .ok s

/-- `Utc.timestamp_opt(secs, 0)` is `None` outside chrono's calendar range; the repaired renderer falls back to the number -/
def chronoMax : Nat := 8210266876799   -- 262142-12-31T23:59:59Z
def renderDate (secs : Nat) : Outcome String :=
  if secs < 2 ^ 63 ∧ secs ≤ chronoMax then .ok "calendar date" else .ok "seconds"

/-- `PieceList` deserialisation: `chunks_exact(20)` and the `try_into` of each chunk -/
def pieceCount (pieces : Bytes) : Outcome Nat :=
  if pieces.length % 20 = 0 then .ok (pieces.length / 20) else .panic "piece_list.rs: chunk is not 20 bytes"

/-- magnet topic: after the length-40 check, `hex::decode` then `try_into::<[u8; 20]>` -/
def topicDigest (h : Bytes) : Outcome Bytes :=
  if h.length ≠ 40 then .error else
  match Magnet.unhex40 h with
  | none => .error
  | some b => if b.length = 20 then .ok b else .panic "magnet_link.rs: bounds are checked above"

-- how deep the recursive walks over a decoded value go (decode, re-encode, drop, dump)
mutual
def nesting : BVal → Nat
  | .int _ _ => 0
  | .bytes _ => 0
  | .list l => nestingList l + 1
  | .dict d => nestingDict d + 1
def nestingList : BList → Nat
  | .nil => 0
  | .cons v t => max (nesting v) (nestingList t)
def nestingDict : BDict → Nat
  | .nil => 0
  | .cons _ v t => max (nesting v) (nestingDict t)
end

/-- recursion needs one stack frame per level; `budget` frames are available -/
def walkValue (budget : Nat) (v : BVal) : Outcome Unit :=
  if nesting v ≤ budget then .ok () else .panic "stack overflow"

/-- the human-readable renderer builds and walks a tree recursively: one frame per path component -/
def treeWalk (budget : Nat) (m : ModeM) : Outcome Unit :=
  match m with
  | .single _ _ => .ok ()
  | .multiple fs => if fs.all (fun f => f.path.length < budget) then .ok () else .panic "table.rs: stack overflow in Tree"

def lengthsOf : ModeM → List Nat
  | .single n _ => [n]
  | .multiple fs => fs.map (·.length)

/-- `torrent show` (text or JSON) on the input bytes -/
def showPipeline (urlOk : Bytes → Bool) (stackBudget : Nat) (b : Bytes) : Outcome Unit :=
  match loadTorrent urlOk b with
  | .outOfModel => .error
  | .error _ => .error
  | .ok m _ =>
    (sumLengths (lengthsOf m.info.mode)).bind fun total =>
    (displaySize total).bind fun _ =>
    (displaySize m.info.pieceLength).bind fun _ =>
    (displaySize b.length).bind fun _ =>
    (pieceCount m.info.pieces).bind fun _ =>
    (treeWalk stackBudget m.info.mode).bind fun _ =>
    (match m.creationDate with | some d => renderDate d | none => .ok "").bind fun _ =>
    match decodeTop 2048 b with
    | some (v, _) => walkValue stackBudget v
    | none => .error

/-- `torrent dump` -/
def dumpPipeline (stackBudget : Nat) (b : Bytes) : Outcome Unit :=
  match decodeTop 2048 b with
  | none => .error
  | some (v, _) => walkValue stackBudget v

/-- `torrent link`: load, then the link is built from the loaded value by total functions
(the one `invariant_unwrap` there parses the constant `magnet:`); the generic value is dropped -/
def linkPipeline (urlOk : Bytes → Bool) (stackBudget : Nat) (b : Bytes) : Outcome Unit :=
  match loadTorrent urlOk b with
  | .outOfModel => .error
  | .error _ => .error
  | .ok _ _ =>
    match decodeTop 2048 b with
    | some (v, _) => walkValue stackBudget v
    | none => .error

/-! ## the verifier's read loop (`Verifier::hash`), counters only

`remaining = &mut buffer[..piece_length - piece_bytes_hashed]` (panics when the subtraction
underflows), `read = &remaining[..bytes_read]` (panics when the reader returns more than it was
given room for — excluded by the `Read` contract, modelled by clamping), `piece_bytes_hashed +=
bytes_read`, reset to 0 when a piece is complete. `reads` is what the operating system returns,
file after file; 0 ends a file. -/

/-- one iteration; `none` = end of this file -/
def hashIter (pl pbh : Nat) (osRead : Nat) : Outcome (Option Nat) :=
  if pbh > pl then .panic "verifier.rs: attempt to subtract with overflow" else
  let room := pl - pbh
  let n := min osRead room                       -- `Read::read` never returns more than the buffer holds
  if n > room then .panic "verifier.rs: range end index out of range" else
  if n = 0 then .ok none else
  let pbh' := pbh + n
  .ok (some (if pbh' = pl then 0 else pbh'))

/-- all reads of all files, threading `piece_bytes_hashed` -/
def hashReads (pl : Nat) : Nat → List Nat → Outcome Nat
  | pbh, [] => .ok pbh
  | pbh, r :: rest =>
    (hashIter pl pbh r).bind fun o =>
      match o with
      | none => hashReads pl pbh rest          -- next file, same piece state
      | some pbh' => hashReads pl pbh' rest

/-- `torrent verify`: load, `Verifier::new` (piece length must fit `u32` and be non-zero, path
components must be plain — errors, not panics), the progress bar's content size, the read loop over
whatever the files deliver -/
def verifyPipeline (urlOk : Bytes → Bool) (stackBudget : Nat) (b : Bytes) (reads : List Nat) : Outcome Unit :=
  match loadTorrent urlOk b with
  | .outOfModel => .error
  | .error _ => .error
  | .ok m _ =>
    if m.info.pieceLength ≥ 2 ^ 32 ∨ m.info.pieceLength = 0 then .error else
    (sumLengths (lengthsOf m.info.mode)).bind fun _ =>
    (pieceCount m.info.pieces).bind fun _ =>
    (hashReads m.info.pieceLength 0 reads).bind fun _ =>
    match decodeTop 2048 b with
    | some (v, _) => walkValue stackBudget v
    | none => .error

end Imdlv.NoPanic
