import Imdlv.Model.Peer
import Imdlv.Model.Infohash
import Imdlv.Model.HostPort
/-!
# Loading a torrent file: the typed reader and the generic decoder together (C07, C08)

`loadTorrent` is what `show`, `link`, `verify`, `announce` do with their input
bytes: the typed serde reader (`Metainfo::deserialize`, nesting limit 2048,
content-size validation) and the generic decoder used for the infohash
(`Infohash::from_input`, nesting limit 2048 after the repair). Every partial
operation of the Rust code on these paths is an explicit outcome here.
-/
namespace Imdlv.Load
open Imdlv Imdlv.Bencode Imdlv.Metainfo Imdlv.Peer

inductive LoadErr where
  | typed            -- serde reader rejects
  | contentSize      -- sum of file lengths does not fit u64
  | pathDepth        -- a listed path has more than 2048 components
  | generic          -- generic decoder rejects (range, depth, structure)
  | infoMissing | infoType | notDict
deriving DecidableEq, Repr

def optStr (d : BDict) (key : String) : Option (Option Bytes) :=
  match d.lookup (str key) with
  | none => some none
  | some (.bytes s) => if isUtf8 s then some (some s) else none
  | some _ => none

def tierStrs : BList → Option (List Bytes)
  | .nil => some []
  | .cons (.bytes b) t => if isUtf8 b then (tierStrs t).map (b :: ·) else none
  | .cons _ _ => none

def tiers : BList → Option (List (List Bytes))
  | .nil => some []
  | .cons (.list l) t => match tierStrs l, tiers t with
    | some a, some r => some (a :: r)
    | _, _ => none
  | .cons _ _ => none

inductive NodeRes where | ok (n : NodeM) | bad | outOfModel

/-- a DHT node `[host, port]`: the host is re-bracketed when it contains a colon and parsed as a URL host -/
def readNode (v : BVal) : NodeRes :=
  match v with
  | .list (.cons (.bytes h) (.cons (.int false p) .nil)) =>
    if !isUtf8 h || p ≥ 65536 then .bad else
    let cs := (String.fromUTF8? (ByteArray.mk h.toArray)).map (·.toList) |>.getD []
    let text := if cs.contains ':' then ['['] ++ cs ++ [']'] else cs
    match HostPort.hostParseC text with
    | .ok _ => .ok { host := h, port := p }
    | .reject => .bad
    | .outOfModel => .outOfModel
  | _ => .bad

def readNodes : BList → Option (Option (List NodeM))   -- none = out of model
  | .nil => some (some [])
  | .cons v t => match readNode v, readNodes t with
    | .outOfModel, _ => none
    | _, none => none
    | .ok n, some (some r) => some (some (n :: r))
    | _, _ => some none

def checkedSum (l : List Nat) : Option Nat :=
  l.foldl (fun acc x => acc.bind fun s => if s + x < 2 ^ 64 then some (s + x) else none) (some 0)

def contentSize? (m : ModeM) : Option Nat :=
  match m with
  | .single n _ => some n
  | .multiple fs => checkedSum (fs.map (·.length))

def maxPathComponents : Nat := 2048

def pathsOk (m : ModeM) : Bool :=
  match m with
  | .single _ _ => true
  | .multiple fs => fs.all fun f => f.path.length ≤ maxPathComponents

inductive Loaded where
  | ok (m : MetainfoM) (infoSpan : Bytes)
  | error (e : LoadErr)
  | outOfModel

/-- typed reader (`Metainfo::deserialize`) -/
def readMetainfo (urlOk : Bytes → Bool) (b : Bytes) : Option (Option MetainfoM) :=   -- none = out of model
  match decodeTop 2048 b with
  | some (.dict d, _) =>
    if !keysUtf8 d then some none else
    match d.lookup (str "info") with
    | some (.dict i) =>
      match readInfoC urlOk (encode (.dict i)), optStr d "announce", optStr d "comment", optStr d "created by",
            optStr d "encoding" with
      | some info, some ann, some com, some cb, some enc =>
        let al : Option (Option (List (List Bytes))) := match d.lookup (str "announce-list") with
          | none => some none
          | some (.list l) => (tiers l).map some
          | some _ => none
        let cd : Option (Option Nat) := match d.lookup (str "creation date") with
          | none => some none
          | some (.int false n) => if n < 2 ^ 64 then some (some n) else none
          | some _ => none
        let nodes : Option (Option (Option (List NodeM))) := match d.lookup (str "nodes") with
          | none => some (some none)
          | some (.list l) => (readNodes l).map fun r => r.map some
          | some _ => some none
        match al, cd, nodes with
        | _, _, none => none
        | some al, some cd, some (some nodes) =>
          some (some { announce := ann, announceList := al, comment := com, createdBy := cb, creationDate := cd,
                       encoding := enc, info := info, nodes := nodes })
        | _, _, _ => some none
      | _, _, _, _, _ => some none
    | _ => some none
  | _ => some none

/-- everything `show` needs from the input bytes -/
def loadTorrent (urlOk : Bytes → Bool) (b : Bytes) : Loaded :=
  match readMetainfo urlOk b with
  | none => .outOfModel
  | some none => .error .typed
  | some (some m) =>
    if !pathsOk m.info.mode then .error .pathDepth else
    match contentSize? m.info.mode with
    | none => .error .contentSize
    | some _ =>
      match Infohash.infohashFromInput (fun s => s) 2048 b with
      | .ok span => .ok m span
      | .error .decode => .error .generic
      | .error .type => .error .notDict
      | .error .infoMissing => .error .infoMissing
      | .error .infoType => .error .infoType

end Imdlv.Load
