import Imdlv.Model.Basic
/-!
# SHA-1 and MD5, executable (for the model driver only)

Theorems never unfold these: every property theorem is parametric in the hash
functions. They exist so that the compiled model can answer verdict questions
(`verify`, infohash) on its own; each correspondence run cross-checks them
against the `sha1`/`md5` crates.
-/
namespace Imdlv.Digest

def rotl (x : UInt32) (n : UInt32) : UInt32 := (x <<< n) ||| (x >>> (32 - n))

def be32 (a b c d : UInt8) : UInt32 :=
  (a.toUInt32 <<< 24) ||| (b.toUInt32 <<< 16) ||| (c.toUInt32 <<< 8) ||| d.toUInt32

def le32 (a b c d : UInt8) : UInt32 := be32 d c b a

def toBE32 (x : UInt32) : Bytes :=
  [(x >>> 24).toUInt8, (x >>> 16).toUInt8, (x >>> 8).toUInt8, x.toUInt8]

def toLE32 (x : UInt32) : Bytes := (toBE32 x).reverse

def toBE64 (n : Nat) : Bytes :=
  (List.range 8).map fun i => UInt8.ofNat (n / 2 ^ (8 * (7 - i)) % 256)

def toLE64 (n : Nat) : Bytes := (toBE64 n).reverse

/-- message padding: 0x80, zeros to 56 mod 64, then the 64-bit bit length -/
def pad (msg : Bytes) (lenBytes : Nat → Bytes) : Bytes :=
  let l := msg.length
  let z := (55 + 64 - l % 64) % 64
  msg ++ [0x80] ++ List.replicate z 0 ++ lenBytes (8 * l)

def words (f : UInt8 → UInt8 → UInt8 → UInt8 → UInt32) : Bytes → List UInt32
  | a :: b :: c :: d :: t => f a b c d :: words f t
  | _ => []

def blocks64 (fuel : Nat) (b : Bytes) : List Bytes :=
  match fuel with
  | 0 => []
  | fuel + 1 => if b.isEmpty then [] else b.take 64 :: blocks64 fuel (b.drop 64)

/-! ## SHA-1 -/

def sha1Schedule (w : Array UInt32) : Array UInt32 :=
  (List.range 64).foldl (fun (w : Array UInt32) i =>
    let t := i + 16
    w.push (rotl (w[t-3]! ^^^ w[t-8]! ^^^ w[t-14]! ^^^ w[t-16]!) 1)) w

structure S5 where
  a : UInt32
  b : UInt32
  c : UInt32
  d : UInt32
  e : UInt32

def sha1Block (h : S5) (blk : Bytes) : S5 :=
  let w := sha1Schedule (words be32 blk).toArray
  let r := (List.range 80).foldl (fun (s : S5) t =>
    let (f, k) :=
      if t < 20 then ((s.b &&& s.c) ||| ((~~~ s.b) &&& s.d), (0x5A827999 : UInt32))
      else if t < 40 then (s.b ^^^ s.c ^^^ s.d, (0x6ED9EBA1 : UInt32))
      else if t < 60 then ((s.b &&& s.c) ||| (s.b &&& s.d) ||| (s.c &&& s.d), (0x8F1BBCDC : UInt32))
      else (s.b ^^^ s.c ^^^ s.d, (0xCA62C1D6 : UInt32))
    let tmp := rotl s.a 5 + f + s.e + k + w[t]!
    { a := tmp, b := s.a, c := rotl s.b 30, d := s.c, e := s.d }) h
  { a := h.a + r.a, b := h.b + r.b, c := h.c + r.c, d := h.d + r.d, e := h.e + r.e }

def sha1 (msg : Bytes) : Bytes :=
  let p := pad msg toBE64
  let h := (blocks64 (p.length / 64 + 1) p).foldl sha1Block
    { a := 0x67452301, b := 0xEFCDAB89, c := 0x98BADCFE, d := 0x10325476, e := 0xC3D2E1F0 }
  toBE32 h.a ++ toBE32 h.b ++ toBE32 h.c ++ toBE32 h.d ++ toBE32 h.e

/-! ## MD5 -/

def md5K : Array UInt32 := #[0xd76aa478, 0xe8c7b756, 0x242070db, 0xc1bdceee, 0xf57c0faf, 0x4787c62a, 0xa8304613, 0xfd469501, 0x698098d8, 0x8b44f7af, 0xffff5bb1, 0x895cd7be, 0x6b901122, 0xfd987193, 0xa679438e, 0x49b40821, 0xf61e2562, 0xc040b340, 0x265e5a51, 0xe9b6c7aa, 0xd62f105d, 0x2441453, 0xd8a1e681, 0xe7d3fbc8, 0x21e1cde6, 0xc33707d6, 0xf4d50d87, 0x455a14ed, 0xa9e3e905, 0xfcefa3f8, 0x676f02d9, 0x8d2a4c8a, 0xfffa3942, 0x8771f681, 0x6d9d6122, 0xfde5380c, 0xa4beea44, 0x4bdecfa9, 0xf6bb4b60, 0xbebfbc70, 0x289b7ec6, 0xeaa127fa, 0xd4ef3085, 0x4881d05, 0xd9d4d039, 0xe6db99e5, 0x1fa27cf8, 0xc4ac5665, 0xf4292244, 0x432aff97, 0xab9423a7, 0xfc93a039, 0x655b59c3, 0x8f0ccc92, 0xffeff47d, 0x85845dd1, 0x6fa87e4f, 0xfe2ce6e0, 0xa3014314, 0x4e0811a1, 0xf7537e82, 0xbd3af235, 0x2ad7d2bb, 0xeb86d391]
def md5S : Array UInt32 := #[7, 12, 17, 22, 7, 12, 17, 22, 7, 12, 17, 22, 7, 12, 17, 22, 5, 9, 14, 20, 5, 9, 14, 20, 5, 9, 14, 20, 5, 9, 14, 20, 4, 11, 16, 23, 4, 11, 16, 23, 4, 11, 16, 23, 4, 11, 16, 23, 6, 10, 15, 21, 6, 10, 15, 21, 6, 10, 15, 21, 6, 10, 15, 21]

structure S4 where
  a : UInt32
  b : UInt32
  c : UInt32
  d : UInt32

def md5Block (h : S4) (blk : Bytes) : S4 :=
  let m := (words le32 blk).toArray
  let r := (List.range 64).foldl (fun (s : S4) i =>
    let (f, g) :=
      if i < 16 then ((s.b &&& s.c) ||| ((~~~ s.b) &&& s.d), i)
      else if i < 32 then ((s.d &&& s.b) ||| ((~~~ s.d) &&& s.c), (5 * i + 1) % 16)
      else if i < 48 then (s.b ^^^ s.c ^^^ s.d, (3 * i + 5) % 16)
      else (s.c ^^^ (s.b ||| (~~~ s.d)), (7 * i) % 16)
    let f2 := f + s.a + md5K[i]! + m[g]!
    { a := s.d, b := s.b + rotl f2 md5S[i]!, c := s.b, d := s.c }) h
  { a := h.a + r.a, b := h.b + r.b, c := h.c + r.c, d := h.d + r.d }

def md5 (msg : Bytes) : Bytes :=
  let p := pad msg toLE64
  let h := (blocks64 (p.length / 64 + 1) p).foldl md5Block
    { a := 0x67452301, b := 0xefcdab89, c := 0x98badcfe, d := 0x10325476 }
  toLE32 h.a ++ toLE32 h.b ++ toLE32 h.c ++ toLE32 h.d

end Imdlv.Digest
