import Imdlv.Generated.Consts
/-!
# Model of `src/bytes.rs`: `FromStr for Bytes` and `Display for Bytes` (C16)

No `Float`: the code's `f64` steps are modelled with exact integer arithmetic.
* `digits.parse::<f64>()` is correctly rounded: `rn53 N (10^d)` (nearest-even to 53 bits).
* `value * (multiple as f64)`: exact for the power-of-two multipliers of the table
  (general multipliers are rounded again).
* `x as u64` truncates toward zero and saturates.
* `n as f64` is `round53 n`; `value /= 1024.0` is exact; `{:.2}` rounds the exact
  binary value half-to-even at two decimals.
Text is `List Char` (char-indexed API in the code).
-/
namespace Imdlv.ByteSize

def isDigitCh (c : Char) : Bool := '0' ≤ c && c ≤ '9'
/-- `is_digit` of the code: decimal digits and `.` -/
def isNumCh (c : Char) : Bool := isDigitCh c || c == '.'
def lowerAscii (c : Char) : Char := if 'A' ≤ c ∧ c ≤ 'Z' then Char.ofNat (c.toNat + 32) else c

inductive PErr where | number | suffix
deriving DecidableEq, Repr

deriving instance DecidableEq for Except

def digitsVal (ds : List Char) : Nat := ds.foldl (fun a c => 10 * a + (c.toNat - 48)) 0

/-- Rust float grammar restricted to strings of digits and dots: at most one
dot, at least one digit. Returns `(N, d)` meaning `N / 10^d`. -/
def parseDecimal (ds : List Char) : Option (Nat × Nat) :=
  let ip := ds.takeWhile isDigitCh
  match ds.dropWhile isDigitCh with
  | [] => if ip.isEmpty then none else some (digitsVal ip, 0)
  | c :: fp =>
    if c == '.' && fp.all isDigitCh && !(ip.isEmpty && fp.isEmpty) then
      some (digitsVal (ip ++ fp), fp.length)
    else none

/-- quotient of `num/den` scaled by `2^(-e)` -/
def scaledQ (num den : Nat) (e : Int) : Nat :=
  if e ≥ 0 then num / (den * 2 ^ e.toNat) else (num * 2 ^ (-e).toNat) / den

/-- round-to-nearest-even of `num/den` (`den > 0`) to 53 significant bits;
result `(m, e)` stands for `m · 2^e`. -/
def rn53 (num den : Nat) : Nat × Int :=
  if num = 0 then (0, 0) else
  let E : Int := (Nat.log2 num : Int) - (Nat.log2 den : Int) - 52
  let e := if scaledQ num den E ≥ 2 ^ 52 then E else E - 1
  let num' := if e ≥ 0 then num else num * 2 ^ (-e).toNat
  let den' := if e ≥ 0 then den * 2 ^ e.toNat else den
  let q := num' / den'
  let r := num' % den'
  let m := if 2 * r > den' ∨ (2 * r = den' ∧ q % 2 = 1) then q + 1 else q
  (m, e)

/-- `⌊m · 2^e⌋` -/
def floorScaled (m : Nat) (e : Int) : Nat :=
  if e ≥ 0 then m * 2 ^ e.toNat else m / 2 ^ (-e).toNat

def u64Max : Nat := 2 ^ 64 - 1

def isPow2 (n : Nat) : Bool := n != 0 && 2 ^ (Nat.log2 n) == n

/-- `float_to_int(value * int_to_float(multiple))` -/
def scaleToU64 (m : Nat) (e : Int) (mult : Nat) : Nat :=
  if isPow2 mult then
    min (floorScaled m (e + (Nat.log2 mult : Int))) u64Max
  else
    -- general multiplier: `mult as f64`, then a rounded product
    let mm := rn53 mult 1
    let pm := m * mm.1
    let pe := e + mm.2
    let pr := if pe ≥ 0 then rn53 (pm * 2 ^ pe.toNat) 1 else rn53 pm (2 ^ (-pe).toNat)
    min (floorScaled pr.1 pr.2) u64Max

def lookupSuffix (s : List Char) : List (List Char × Nat) → Option Nat
  | [] => none
  | (k, v) :: t => if k = s then some v else lookupSuffix s t

/-- `FromStr for Bytes` (ASCII suffixes) -/
def parseBytes (text : List Char) : Except PErr Nat :=
  let digits := text.takeWhile isNumCh
  let suffix := (text.dropWhile isNumCh).map lowerAscii
  match parseDecimal digits with
  | none => .error .number
  | some (N, d) =>
    match lookupSuffix suffix Consts.suffixTable with
    | none => .error .suffix
    | some mult =>
      let r := rn53 N (10 ^ d)
      .ok (scaleToU64 r.1 r.2 mult)

/-! ## Display -/

/-- `n as f64`, as an integer -/
def round53 (n : Nat) : Nat := let r := rn53 n 1; floorScaled r.1 r.2

/-- number of `value /= step` iterations of the display loop (`fuel` bounds it) -/
def unitIndexAux (step : Nat) : Nat → Nat → Nat → Nat
  | 0, _, i => i
  | fuel + 1, v, i => if v ≥ step ^ (i + 1) then unitIndexAux step fuel v (i + 1) else i

def unitIndex (v : Nat) : Nat := unitIndexAux Consts.displayStep 7 v 0

/-- two-decimal value in hundredths, rounded half-to-even on the exact quotient `v / unit` -/
def hundredths (v unit : Nat) : Nat :=
  let t := v * 100
  let q := t / unit
  let r := t % unit
  if 2 * r > unit ∨ (2 * r = unit ∧ q % 2 = 1) then q + 1 else q

def digitCh (n : Nat) : Char := Char.ofNat (48 + n % 10)

def natChars (n : Nat) : List Char := (Nat.toDigits 10 n)

/-- `format!("{value:.2}")` trimmed of trailing zeros and a trailing dot -/
def fracChars (frac : Nat) : List Char :=
  if frac = 0 then []
  else if frac % 10 = 0 then ['.', digitCh (frac / 10)]
  else ['.', digitCh (frac / 10), digitCh (frac % 10)]

structure Shown where
  /-- value in hundredths of the unit -/
  hundredths : Nat
  /-- 0 = bytes, 1 = KiB, … -/
  unit : Nat
  singular : Bool
deriving DecidableEq, Repr

def shown (n : Nat) : Shown :=
  let v := round53 n
  let i := unitIndex v
  { hundredths := hundredths v (Consts.displayStep ^ i), unit := i, singular := i == 0 && v == 1 }

def suffixText (s : Shown) : List Char :=
  if s.unit = 0 then (if s.singular then "byte".toList else "bytes".toList)
  else (Consts.displaySuffixes.getD (s.unit - 1) "?").toList

def render (s : Shown) : List Char :=
  natChars (s.hundredths / 100) ++ fracChars (s.hundredths % 100) ++ [' '] ++ suffixText s

/-- `Display for Bytes` -/
def displayBytes (n : Nat) : List Char := render (shown n)

end Imdlv.ByteSize
