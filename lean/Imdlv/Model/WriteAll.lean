/-!
# Model of writing through an `OutputStream` (C18, C19): `OutputStream::write` under `write_all`

Everything imdl prints goes through `write!`/`writeln!` on an `OutputStream`, i.e. through
`std::io::Write::write_all`, which calls `OutputStream::write` until the buffer is used up:

* `OutputStream::write`: when the stream is active, the count of the underlying `write` - which may
  be *short* (fewer bytes than offered: a pipe that is nearly full, a write interrupted by a
  signal) - is handed back unchanged; when inactive (`--quiet` on standard error) nothing reaches
  the descriptor and the whole length is reported;
* `write_all`: `Ok(0)` is an error (`WriteZero`), `Ok(n)` drops the first `n` bytes and goes
  round again, `Err` ends the loop with that error.

The underlying writer is a *script*: a list of integers, one per `write` call - how many bytes that
call accepts (clamped to `1..=len`), negative = the call fails; when the script is used up every call
accepts everything. This is exactly the writer behind the hook `imdl::verif::stream_write_all`.
Import-free.
-/
namespace Imdlv.WriteAll

abbrev Bytes := List UInt8

/-- how many of `len > 0` offered bytes a scripted `write` accepts; `none` = the call fails -/
def accepted (entry : Option Int) (len : Nat) : Option Nat :=
  match entry with
  | none => some len
  | some k => if k < 0 then none else some (max 1 (min k.toNat len))

/-- `write_all` on an *active* stream; fuel = an upper bound on the number of turns (each turn
delivers at least one byte). Result: success, and the bytes the descriptor received. -/
def loop : Nat → Bytes → List Int → Bool × Bytes
  | 0, data, _ => (data.isEmpty, [])
  | fuel + 1, data, script =>
    if data.isEmpty then (true, [])
    else
      match accepted script.head? data.length with
      | none => (false, [])
      | some n =>
        let r := loop fuel (data.drop n) script.tail
        (r.1, data.take n ++ r.2)

/-- `OutputStream` + `write_all` -/
def writeAll (active : Bool) (data : Bytes) (script : List Int) : Bool × Bytes :=
  if active then loop data.length data script
  else (true, [])   -- `write` reports the whole length at once; the loop ends after one turn

end Imdlv.WriteAll
