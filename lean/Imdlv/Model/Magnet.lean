import Imdlv.Model.Basic
/-!
# Model of `src/magnet_link.rs` and `Metainfo::trackers` (C10)

`toQuery` is the query assembled by `MagnetLink::to_url` after the repair:
every value (`dn`, `tr`, `x.pe`) is percent-escaped by `escape` before it is
pushed. `urlQueryPass` is what the url crate's `set_query` then does to the
string (tab/LF/CR dropped; C0 controls, space, `"`, `#`, `<`, `>`, DEL and
non-ASCII percent-encoded). `stdParse` is a standard query-string parser
(split on `&` and the first `=`, percent-decoding, `+` as space or not).
-/
namespace Imdlv.Magnet

/-- byte values left literal by the encoder: unreserved, and `: / , [ ] ? = @` -/
def keepLiteralN (n : Nat) : Bool :=
  (65 ≤ n && n ≤ 90) || (97 ≤ n && n ≤ 122) || (48 ≤ n && n ≤ 57) ||
  n == 45 || n == 46 || n == 95 || n == 126 ||       -- - . _ ~
  n == 58 || n == 47 || n == 44 || n == 91 || n == 93 || n == 63 || n == 61 || n == 64   -- : / , [ ] ? = @

def keepLiteral (b : UInt8) : Bool := keepLiteralN b.toNat

def hexUp (n : Nat) : UInt8 := if n < 10 then UInt8.ofNat (48 + n) else UInt8.ofNat (55 + n)

/-- percent-escape a value -/
def escape (s : Bytes) : Bytes :=
  s.flatMap fun b => if keepLiteral b then [b] else [37, hexUp (b.toNat / 16), hexUp (b.toNat % 16)]

def hexValB (b : UInt8) : Option Nat :=
  if 48 ≤ b ∧ b ≤ 57 then some (b.toNat - 48)
  else if 97 ≤ b ∧ b ≤ 102 then some (b.toNat - 87)
  else if 65 ≤ b ∧ b ≤ 70 then some (b.toNat - 55)
  else none

/-- percent-decoding; a `%` not followed by two hex digits is kept -/
def pctDecode : Bytes → Bytes
  | [] => []
  | 37 :: a :: b :: t =>
    match hexValB a, hexValB b with
    | some x, some y => UInt8.ofNat (16 * x + y) :: pctDecode t
    | _, _ => 37 :: pctDecode (a :: b :: t)
  | c :: t => c :: pctDecode t

def plusToSpace (s : Bytes) : Bytes := s.map fun b => if b = 43 then 32 else b

def splitOn (sep : UInt8) (s : Bytes) : List Bytes :=
  s.foldr (fun b acc => if b = sep then [] :: acc else match acc with
    | [] => [[b]]
    | h :: t => (b :: h) :: t) [[]]

/-- split at the first `=` -/
def splitFirstEq : Bytes → Bytes × Bytes
  | [] => ([], [])
  | 61 :: t => ([], t)
  | c :: t => let r := splitFirstEq t; (c :: r.1, r.2)

/-- a standard query-string parser -/
def stdParse (plusAsSpace : Bool) (q : Bytes) : List (Bytes × Bytes) :=
  (splitOn 38 q).map fun seg =>
    let kv := splitFirstEq seg
    let dec := fun (x : Bytes) => pctDecode (if plusAsSpace then plusToSpace x else x)
    (dec kv.1, dec kv.2)

def urlDropsN (n : Nat) : Bool := n == 9 || n == 10 || n == 13
def urlEncodesN (n : Nat) : Bool := n ≤ 32 || n == 34 || n == 35 || n == 60 || n == 62 || n ≥ 127

/-- the url crate's query pass -/
def urlQueryPass (q : Bytes) : Bytes :=
  (q.filter fun b => !urlDropsN b.toNat).flatMap fun b =>
    if urlEncodesN b.toNat then [37, hexUp (b.toNat / 16), hexUp (b.toNat % 16)] else [b]

structure Link where
  /-- 20 bytes -/
  infohash : Bytes
  name : Option Bytes
  trackers : List Bytes
  peers : List Bytes
  /-- ascending, de-duplicated (`BTreeSet<u64>`) -/
  indices : List Nat

def hexNibble (n : Nat) : UInt8 := if n < 10 then UInt8.ofNat (48 + n) else UInt8.ofNat (87 + n)
def hexLower (b : Bytes) : Bytes := b.flatMap fun x => [hexNibble (x.toNat / 16), hexNibble (x.toNat % 16)]

def natDigits (n : Nat) : Bytes :=
  if n < 10 then [UInt8.ofNat (48 + n)] else natDigits (n / 10) ++ [UInt8.ofNat (48 + n % 10)]
termination_by n
decreasing_by omega

def commaJoin : List Bytes → Bytes
  | [] => []
  | [x] => x
  | x :: t => x ++ [44] ++ commaJoin t

def b (s : String) : Bytes := s.toUTF8.toList

def joinAmp : List Bytes → Bytes
  | [] => []
  | [x] => x
  | x :: t => x ++ [38] ++ joinAmp t

/-- key / raw (already escaped) value pairs in the order `to_url` pushes them -/
def segments (l : Link) : List (Bytes × Bytes) :=
  [(b "xt", b "urn:btih:" ++ hexLower l.infohash)] ++
  (match l.name with | some n => [(b "dn", escape n)] | none => []) ++
  l.trackers.map (fun t => (b "tr", escape t)) ++ l.peers.map (fun p => (b "x.pe", escape p)) ++
  (if l.indices.isEmpty then [] else [(b "so", commaJoin (l.indices.map natDigits))])

/-- `MagnetLink::to_url` query text (before the url crate's pass) -/
def toQuery (l : Link) : Bytes := joinAmp ((segments l).map fun kv => kv.1 ++ [61] ++ kv.2)

def toUrl (l : Link) : Bytes := b "magnet:?" ++ urlQueryPass (toQuery l)

/-- what a decoder must recover -/
def expectedPairs (l : Link) : List (Bytes × Bytes) :=
  [(b "xt", b "urn:btih:" ++ hexLower l.infohash)] ++
  (match l.name with | some n => [(b "dn", n)] | none => []) ++
  l.trackers.map (fun t => (b "tr", t)) ++ l.peers.map (fun p => (b "x.pe", p)) ++
  (if l.indices.isEmpty then [] else [(b "so", commaJoin (l.indices.map natDigits))])

/-! ## selection indices and tracker list -/

def insertIdx (x : Nat) : List Nat → List Nat
  | [] => [x]
  | y :: t => if x < y then x :: y :: t else if x = y then y :: t else y :: insertIdx x t

/-- `BTreeSet` built by `add_index` in argument order -/
def indexSet (xs : List Nat) : List Nat := xs.foldl (fun s x => insertIdx x s) []

/-- `Metainfo::trackers`: announce, then the tiers flattened, first occurrence kept -/
def dedupFirst (seen : List Bytes) : List Bytes → List Bytes
  | [] => []
  | x :: t => if seen.contains x then dedupFirst seen t else x :: dedupFirst (x :: seen) t

def trackers (announce : Option Bytes) (tiers : List (List Bytes)) : List Bytes :=
  dedupFirst [] (announce.toList ++ tiers.flatten)

/-! ## imdl's own parser, over the decoded pairs -/

inductive PErr where
  | topicMissing | infohashLength | hexParse | tracker | peer
deriving DecidableEq, Repr

def unhex40 (s : Bytes) : Option Bytes :=
  let rec go : Bytes → Option Bytes
    | [] => some []
    | [_] => none
    | x :: y :: t => match hexValB x, hexValB y, go t with
      | some a, some c, some r => some (UInt8.ofNat (16 * a + c) :: r)
      | _, _, _ => none
  go s

/-- first `xt` pair carrying a `urn:btih:` topic -/
def findTopic : List (Bytes × Bytes) → Except PErr Bytes
  | [] => .error .topicMissing
  | (k, v) :: t =>
    if k = b "xt" ∧ v.take 9 = b "urn:btih:" then
      let h := v.drop 9
      if h.length ≠ 40 then .error .infohashLength
      else match unhex40 h with
        | some bytes => .ok bytes
        | none => .error .hexParse
    else findTopic t

structure Parsed where
  infohash : Bytes
  name : Option Bytes
  trackers : List Bytes
  peers : List Bytes

/-- `MagnetLink::parse` after `query_pairs`; `urlOk`/`peerOk` stand for `Url::parse` / `HostPort::from_str`
acceptance (values are kept as text) -/
def parsePairs (urlOk peerOk : Bytes → Bool) (pairs : List (Bytes × Bytes)) : Except PErr Parsed :=
  match findTopic pairs with
  | .error e => .error e
  | .ok ih =>
    pairs.foldl (fun acc kv => match acc with
      | .error e => .error e
      | .ok p =>
        if kv.1 = b "tr" then (if urlOk kv.2 then .ok { p with trackers := p.trackers ++ [kv.2] } else .error .tracker)
        else if kv.1 = b "dn" then .ok { p with name := some kv.2 }
        else if kv.1 = b "x.pe" then (if peerOk kv.2 then .ok { p with peers := p.peers ++ [kv.2] } else .error .peer)
        else .ok p) (.ok { infohash := ih, name := none, trackers := [], peers := [] })

end Imdlv.Magnet
