/-!
# Effect model of `imdl torrent create` on the file system (C09)

The file system is a function from paths to what is stored there; `create`
performs at most one write, after every check has passed, in the order of
`Create::run`: argument checks → private lint → walk → output resolution →
piece-length checks → directory target → existence check → hash → serialise →
the single guarded write (`create_new`, or `create+truncate` under `--force`).
-/
namespace Imdlv.CreateFx

inductive Node where
  | absent | file (content : List UInt8) | dir
deriving DecidableEq, Repr

abbrev FS := String → Node

inductive Target where
  | stdout
  /-- resolved output path and, when that path is an existing directory, the file inside it -/
  | path (p : String)
deriving DecidableEq, Repr

/-- where a failure strikes, if any -/
inductive Fault where
  | none
  | beforeOutputCheck     -- bad option, private lint, bad glob, walk error, undecodable name, piece-length lint
  | whileHashing          -- read error
  | atOpen                -- the target cannot be opened for writing (missing parent, path through a file, …)
deriving DecidableEq, Repr

structure Req where
  force : Bool
  dryRun : Bool
  /-- `--output`, or the default next to the input -/
  target : Target
  /-- `<name>.torrent` (used when the target is a directory) -/
  torrentName : String
  fault : Fault
  bytes : List UInt8
deriving Repr

inductive Outcome where | ok | error
deriving DecidableEq, Repr

/-- the path the torrent is written to: the target itself, or `<target>/<name>.torrent` for a directory target -/
def finalPath (fs : FS) (r : Req) : Option String :=
  match r.target with
  | .stdout => none
  | .path p => match fs p with
    | .dir => some (p ++ "/" ++ r.torrentName)
    | _ => some p

def update (fs : FS) (p : String) (n : Node) : FS := fun q => if q = p then n else fs q

inductive Decision where
  | fail | noop | write (out : String)
deriving DecidableEq, Repr

/-- the decision `Create::run` takes, in the order it takes it -/
def decision (fs : FS) (r : Req) : Decision :=
  if r.fault = .beforeOutputCheck then .fail else
  match finalPath fs r with
  | none =>
    -- standard output: nothing on disk changes
    if r.fault = .whileHashing then .fail else .noop
  | some out =>
    if r.force = false ∧ fs out ≠ .absent then .fail          -- OutputExists
    else if r.fault = .whileHashing then .fail
    else if r.dryRun = true then .noop
    else if r.fault = .atOpen then .fail
    else if fs out = .dir then .fail                            -- opening a directory for writing fails
    else .write out

/-- `Create::run` as a file-system transformer -/
def create (fs : FS) (r : Req) : FS × Outcome :=
  match decision fs r with
  | .fail => (fs, .error)
  | .noop => (fs, .ok)
  | .write out => (update fs out (.file r.bytes), .ok)

/-- read-only commands -/
def readOnly (fs : FS) : FS := fs

end Imdlv.CreateFx
