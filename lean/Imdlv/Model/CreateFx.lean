/-!
# Effect model of `imdl torrent create` on the file system (C09)

The file system is a function from paths to what is stored there; `create`
performs at most one write, after every check has passed, in the order of
`Create::run`: argument checks → private lint → walk → output resolution →
piece-length checks → directory target → existence check → hash → serialise →
the single guarded write (`create_new`, or `create+truncate` under `--force`).
-/
namespace Imdlv.CreateFx

inductive Node where
  | absent | file (content : List UInt8) | dir
  /-- a dangling symbolic link (its target does not exist) -/
  | link (target : String)
deriving DecidableEq, Repr

/-- `Path::exists`: follows symbolic links, so a dangling link "does not exist" -/
def present : Node → Bool
  | .file _ => true
  | .dir => true
  | _ => false

abbrev FS := String → Node

inductive Target where
  | stdout
  /-- resolved output path and, when that path is an existing directory, the file inside it -/
  | path (p : String)
deriving DecidableEq, Repr

/-- where a failure strikes, if any -/
inductive Fault where
  | none
  | beforeOutputCheck     -- bad option, private lint, bad glob, walk error, undecodable name, piece-length lint
  | whileHashing          -- read error
  | atOpen                -- the target cannot be opened for writing (missing parent, path through a file, …)
deriving DecidableEq, Repr

structure Req where
  force : Bool
  dryRun : Bool
  /-- `--output`, or the default next to the input -/
  target : Target
  /-- `<name>.torrent` (used when the target is a directory) -/
  torrentName : String
  fault : Fault
  bytes : List UInt8
deriving Repr

inductive Outcome where | ok | error
deriving DecidableEq, Repr

/-- the path the torrent is written to: the target itself, or `<target>/<name>.torrent` for a directory target -/
def finalPath (fs : FS) (r : Req) : Option String :=
  match r.target with
  | .stdout => none
  | .path p => match fs p with
    | .dir => some (p ++ "/" ++ r.torrentName)
    | _ => some p

def update (fs : FS) (p : String) (n : Node) : FS := fun q => if q = p then n else fs q

inductive Decision where
  | fail | noop | write (out : String)
deriving DecidableEq, Repr

/-- the guarded open at the end: `create_new` (`O_CREAT|O_EXCL`, which refuses anything that is
there, symbolic links included) or, under `--force`, `create+truncate` (which follows a link) -/
def openWrite (fs : FS) (force : Bool) (out : String) : Decision :=
  match fs out with
  | .dir => .fail                                  -- opening a directory for writing fails
  | .absent => .write out
  | .file _ => if force then .write out else .fail -- EEXIST
  | .link t => if force then .write t else .fail   -- EEXIST; forced: written through the link

/-- the decision `Create::run` takes, in the order it takes it. `fsCheck` is the file system when
the output path is resolved and checked, `fsOpen` the one at the time of the final open (other
processes may have changed it in between: hashing can take arbitrarily long). -/
def decisionAt (fsCheck fsOpen : FS) (r : Req) : Decision :=
  if r.fault = .beforeOutputCheck then .fail else
  match finalPath fsCheck r with
  | none =>
    -- standard output: nothing on disk changes
    if r.fault = .whileHashing then .fail else .noop
  | some out =>
    if r.force = false ∧ present (fsCheck out) = true then .fail   -- OutputExists
    else if r.fault = .whileHashing then .fail
    else if r.dryRun = true then .noop
    else if r.fault = .atOpen then .fail
    else openWrite fsOpen r.force out

/-- `Create::run` as a file-system transformer, with interference between check and open -/
def createAt (fsCheck fsOpen : FS) (r : Req) : FS × Outcome :=
  match decisionAt fsCheck fsOpen r with
  | .fail => (fsOpen, .error)
  | .noop => (fsOpen, .ok)
  | .write out => (update fsOpen out (.file r.bytes), .ok)

/-- without interference -/
def decision (fs : FS) (r : Req) : Decision := decisionAt fs fs r

def create (fs : FS) (r : Req) : FS × Outcome := createAt fs fs r

/-- read-only commands -/
def readOnly (fs : FS) : FS := fs

end Imdlv.CreateFx
