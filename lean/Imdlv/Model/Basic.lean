/-!
# Shared basics: bytes, chunking, hex, decimal digits

Import-free so that the driver links as a `lean_exe`.
-/
namespace Imdlv

abbrev Bytes := List UInt8

/-- Cut `l` into consecutive blocks of `n` bytes, the last one possibly
shorter; no block for empty content (and none at all when `n = 0`). -/
def chunks (n : Nat) (l : Bytes) : List Bytes :=
  if h : n = 0 ∨ l = [] then [] else
    l.take n :: chunks n (l.drop n)
termination_by l.length
decreasing_by
  simp only [List.length_drop]
  have : l.length ≠ 0 := by
    intro h0; apply h; right; exact List.eq_nil_of_length_eq_zero h0
  omega

/-! ## hex -/

def hexDigit (n : Nat) : Char :=
  if n < 10 then Char.ofNat (48 + n) else Char.ofNat (87 + n)

def hexOfBytes (b : Bytes) : String :=
  String.ofList (b.flatMap fun x => [hexDigit (x.toNat / 16), hexDigit (x.toNat % 16)])

def hexVal (c : Char) : Option Nat :=
  if '0' ≤ c ∧ c ≤ '9' then some (c.toNat - 48)
  else if 'a' ≤ c ∧ c ≤ 'f' then some (c.toNat - 87)
  else if 'A' ≤ c ∧ c ≤ 'F' then some (c.toNat - 55)
  else none

def bytesOfHexChars : List Char → Option Bytes
  | [] => some []
  | [_] => none
  | a :: b :: t =>
    match hexVal a, hexVal b, bytesOfHexChars t with
    | some x, some y, some r => some (UInt8.ofNat (16 * x + y) :: r)
    | _, _, _ => none

/-- `-` stands for the empty byte string on the wire. -/
def bytesOfHex (s : String) : Option Bytes :=
  if s = "-" then some [] else bytesOfHexChars s.toList

def hexOrDash (b : Bytes) : String := if b.isEmpty then "-" else hexOfBytes b

def joinWith (sep : String) (l : List String) : String :=
  match l with
  | [] => ""
  | x :: t => t.foldl (fun acc y => acc ++ sep ++ y) x

def natList? (s : String) : Option (List Nat) :=
  if s = "-" then some [] else
    (s.splitOn ",").foldr (fun x acc => match x.toNat?, acc with
      | some n, some l => some (n :: l)
      | _, _ => none) (some [])

end Imdlv
