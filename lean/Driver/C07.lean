import Imdlv.Model.Summary
import Imdlv.Model.Digest
import Driver.Url
namespace Driver.C07
open Imdlv Imdlv.Load Imdlv.Summary

def ob (o : Option Bytes) : String := match o with | some b => hexOrDash b | none => "~"
def on (o : Option Nat) : String := match o with | some n => toString n | none => "~"
def hl (l : List Bytes) : String := if l.isEmpty then "." else joinWith "," (l.map hexOrDash)

def errName : LoadErr → String
  | .typed => "typed" | .contentSize => "content-size" | .pathDepth => "path-depth" | .generic => "generic"
  | .infoMissing => "info-missing" | .infoType => "info-type" | .notDict => "not-dict"

/-- `load <hex>` → `ok name=… comment=… …` | `err <kind>` | `out-of-model` -/
def handle (args : List String) : String :=
  match args with
  | ["load", h] =>
    match bytesOfHex h with
    | none => "bad-op"
    | some b =>
      let show1 := fun (x : Loaded) => match x with
        | .outOfModel => "out-of-model"
        | .error e => "err " ++ errName e
        | .ok m span =>
          let s := summary m b.length span
          let tiers := if s.announceList.isEmpty then "." else joinWith ";" (s.announceList.map fun t => if t.isEmpty then "_" else joinWith "," (t.map hexOrDash))
          s!"ok name={hexOrDash s.name} comment={ob s.comment} cdate={on s.creationDate} cby={ob s.createdBy} source={ob s.source} " ++
          s!"ih={hexOfBytes (Digest.sha1 s.infoHashOf)} tsize={s.torrentSize} csize={s.contentSize} private={if s.priv then 1 else 0} " ++
          s!"tracker={ob s.tracker} alist={tiers} uurl={ob s.updateUrl} nodes={hl s.dhtNodes} psize={s.pieceSize} pcount={s.pieceCount} " ++
          s!"fcount={s.fileCount} files={hl s.files}"
      -- bracket the unmodelled URL parser (see Driver.Url)
      let a := show1 (loadTorrent Url.urlAny b)
      let c := show1 (loadTorrent Url.urlNormal b)
      if a == c then a else "out-of-model"
  | _ => "bad-op"

end Driver.C07
