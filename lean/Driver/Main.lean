import Driver.C01
import Driver.C03
import Driver.C04
import Driver.C05
import Driver.C06
import Driver.C07
import Driver.C09
import Driver.C10
import Driver.C11
import Driver.C12
import Driver.C14
import Driver.C15
import Driver.C16
import Driver.C17
import Driver.C18
import Driver.C19
import Driver.Util
/-! Line-protocol driver: one request per line `Cxx <op> <args…>`, one answer
per line. Executes the Lean models for the correspondence check. -/

def dispatch (line : String) : String :=
  match line.trimAscii.toString.splitOn " " with
  | "C01" :: args => Driver.C01.handle args
  | "C03" :: args => Driver.C03.handle args
  | "C04" :: args => Driver.C04.handle args
  | "C05" :: args => Driver.C05.handle args
  | "C06" :: args => Driver.C06.handle args
  | "C07" :: args => Driver.C07.handle args
  | "C09" :: args => Driver.C09.handle args
  | "C10" :: args => Driver.C10.handle args
  | "C11" :: args => Driver.C11.handle args
  | "C12" :: args => Driver.C12.handle args
  | "C14" :: args => Driver.C14.handle args
  | "C15" :: args => Driver.C15.handle args
  | "C16" :: args => Driver.C16.handle args
  | "C17" :: args => Driver.C17.handle args
  | "C18" :: args => Driver.C18.handle args
  | "C19" :: args => Driver.C19.handle args
  | "util" :: args => Driver.Util.handle args
  | ["ping"] => "pong"
  | _ => "bad-op"

partial def loop (hin : IO.FS.Stream) (hout : IO.FS.Stream) : IO Unit := do
  let line ← hin.getLine
  if line.isEmpty then return ()
  hout.putStrLn (dispatch line)
  hout.flush
  loop hin hout

def main : IO Unit := do loop (← IO.getStdin) (← IO.getStdout)
