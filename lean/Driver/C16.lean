import Imdlv.Model.ByteSize
import Imdlv.Model.Basic
namespace Driver.C16
open Imdlv Imdlv.ByteSize

def utf8Text? (b : Bytes) : Option String := String.fromUTF8? (ByteArray.mk b.toArray)

/-- `parse <hex utf8>` → `ok n` | `err number|suffix` | `out-of-model`;  `display <n>` → `ok <hex utf8>` -/
def handle (args : List String) : String :=
  match args with
  | ["parse", h] =>
    match (bytesOfHex h).bind utf8Text? with
    | none => "bad-op"
    | some s =>
      let cs := s.toList
      if cs.any (fun c => c.toNat ≥ 128) then "out-of-model" else
      match parseBytes cs with
      | .ok n => s!"ok {n}"
      | .error .number => "err number"
      | .error .suffix => "err suffix"
  | ["display", n] =>
    match n.toNat? with
    | some n => "ok " ++ String.ofList (displayBytes n)
    | none => "bad-op"
  | _ => "bad-op"

end Driver.C16
