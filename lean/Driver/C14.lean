import Imdlv.Model.Lints
namespace Driver.C14
open Imdlv.Lints

def allowOf (mask : Nat) : Lint → Bool
  | .privateTrackerless => mask % 2 == 1
  | .smallPieceLength => (mask / 2) % 2 == 1
  | .unevenPieceLength => (mask / 4) % 2 == 1

def errName : Err → String
  | .privateTrackerless => "private-trackerless"
  | .zero => "zero"
  | .uneven => "uneven"
  | .small => "small"
  | .tooLarge => "too-large"

/-- `decide <allowmask> <p> <priv> <ann>` → `ok p` | `err <error> <lint|-> <mask of violated-and-denied lints>` -/
def handle (args : List String) : String :=
  match args with
  | ["decide", m, p, pr, an] =>
    match m.toNat?, p.toNat?, pr.toNat?, an.toNat? with
    | some m, some p, some pr, some an =>
      let allow := allowOf m
      let priv := pr == 1
      let ann := an == 1
      let vd (l : Lint) : Nat := if violated p priv ann l && !allow l then 1 else 0
      let mask := vd .privateTrackerless + 2 * vd .smallPieceLength + 4 * vd .unevenPieceLength
      match createDecision allow p priv ann with
      | .ok q => s!"ok {q}"
      | .error e => s!"err {errName e} {match lintOf e with | some l => l.name | none => "-"} {mask}"
    | _, _, _, _ => "bad-op"
  | _ => "bad-op"

end Driver.C14
