import Imdlv.Model.Digest
namespace Driver.Util
open Imdlv
/-- `sha1 <hex>` / `md5 <hex>` -/
def handle (args : List String) : String :=
  match args with
  | ["sha1", h] => match bytesOfHex h with | some b => "ok " ++ hexOfBytes (Digest.sha1 b) | none => "bad-op"
  | ["md5", h] => match bytesOfHex h with | some b => "ok " ++ hexOfBytes (Digest.md5 b) | none => "bad-op"
  | _ => "bad-op"
end Driver.Util
