import Imdlv.Model.Digest
import Imdlv.Model.Peer
namespace Driver.Util
open Imdlv
/-- `sha1 <hex>` / `md5 <hex>` / `utf8 <hex>` → `ok 1|0` -/
def handle (args : List String) : String :=
  match args with
  | ["sha1", h] => match bytesOfHex h with | some b => "ok " ++ hexOfBytes (Digest.sha1 b) | none => "bad-op"
  | ["md5", h] => match bytesOfHex h with | some b => "ok " ++ hexOfBytes (Digest.md5 b) | none => "bad-op"
  | ["utf8", h] => match bytesOfHex h with | some b => (if Peer.isUtf8 b then "ok 1" else "ok 0") | none => "bad-op"
  | ["utf8"] => if Peer.isUtf8 [] then "ok 1" else "ok 0"
  | _ => "bad-op"
end Driver.Util
