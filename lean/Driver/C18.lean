import Imdlv.Model.Streams
namespace Driver.C18
open Imdlv.Streams

def b (s : String) : Bool := s == "1"

/-- `streams <NO_COLOR> <TERM=dumb> <ttyOut> <ttyErr> <auto|always|never> <terminal> <quiet>`
 → `out <active> <style> <term> err <active> <style> <term>` -/
def handle (args : List String) : String :=
  match args with
  | ["streams", nc, td, to, te, col, tm, q] =>
    let color := if col == "always" then UseColor.always else if col == "never" then UseColor.never else UseColor.auto
    let c : Config := ⟨b nc, b td, b to, b te, color, b tm, b q⟩
    let o := outStream c
    let e := errStream c
    let f (x : Bool) : String := if x then "1" else "0"
    s!"out {f o.active} {f o.style} {f o.term} err {f e.active} {f e.style} {f e.term}"
  | ["exit", o] =>
    match o with
    | "ok" => s!"ok {exitCode .ok}"
    | "failed" => s!"ok {exitCode .failed}"
    | "usage" => s!"ok {exitCode .usage}"
    | "help" => s!"ok {exitCode .helpOrVersion}"
    | _ => "bad-op"
  | _ => "bad-op"

end Driver.C18
