import Imdlv.Model.Streams
import Imdlv.Model.WriteAll
import Imdlv.Model.Basic
namespace Driver.C18
open Imdlv.Streams

def b (s : String) : Bool := s == "1"

/-- `streams <NO_COLOR> <TERM=dumb> <ttyOut> <ttyErr> <auto|always|never> <terminal> <quiet>`
 → `out <active> <style> <term> err <active> <style> <term>` -/
def intList? (s : String) : Option (List Int) :=
  if s = "-" then some [] else
    (s.splitOn ",").foldr (fun x acc => match x.toInt?, acc with
      | some n, some l => some (n :: l)
      | _, _ => none) (some [])

def handle (args : List String) : String :=
  match args with
  -- `writeall <active> <data hex> <script: comma separated integers | ->` → `ok <success> <delivered hex>`
  | ["writeall", act, data, script] =>
    match Imdlv.bytesOfHex data, intList? script with
    | some d, some sc =>
      let r := Imdlv.WriteAll.writeAll (b act) d sc
      s!"ok {if r.1 then 1 else 0} {Imdlv.hexOrDash r.2}"
    | _, _ => "bad-op"
  | ["streams", nc, td, to, te, col, tm, q] =>
    let color := if col == "always" then UseColor.always else if col == "never" then UseColor.never else UseColor.auto
    let c : Config := ⟨b nc, b td, b to, b te, color, b tm, b q⟩
    let o := outStream c
    let e := errStream c
    let f (x : Bool) : String := if x then "1" else "0"
    s!"out {f o.active} {f o.style} {f o.term} err {f e.active} {f e.style} {f e.term}"
  | ["exit", o] =>
    match o with
    | "ok" => s!"ok {exitCode .ok}"
    | "failed" => s!"ok {exitCode .failed}"
    | "usage" => s!"ok {exitCode .usage}"
    | "help" => s!"ok {exitCode .helpOrVersion}"
    | _ => "bad-op"
  | _ => "bad-op"

end Driver.C18
