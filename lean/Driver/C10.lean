import Imdlv.Model.Magnet
namespace Driver.C10
open Imdlv Imdlv.Magnet

def optBytes (s : String) : Option (Option Bytes) :=
  if s = "~" then some none else (bytesOfHex s).map some

def hexList (s : String) : Option (List Bytes) :=
  if s = "." then some [] else
  (s.splitOn ",").foldr (fun x acc => match bytesOfHex x, acc with
    | some b, some l => some (b :: l)
    | _, _ => none) (some [])

def tierList (s : String) : Option (List (List Bytes)) :=
  if s = "." then some [] else
  (s.splitOn ";").foldr (fun x acc => match (if x = "_" then some [] else hexList x), acc with
    | some t, some l => some (t :: l)
    | _, _ => none) (some [])

def natListDot (s : String) : Option (List Nat) := if s = "." then some [] else natList? s

/-- `url <infohash> <name|~> <trackers> <peers> <indices in argument order>` → `ok <hex url>`
    `trackers <announce|~> <tiers>` → `ok <hex,hex…|.>` -/
def handle (args : List String) : String :=
  match args with
  | ["url", ih, name, trs, pes, idx] =>
    match bytesOfHex ih, optBytes name, hexList trs, hexList pes, natListDot idx with
    | some ih, some name, some trs, some pes, some idx =>
      "ok " ++ hexOfBytes (toUrl { infohash := ih, name := name, trackers := trs, peers := pes, indices := indexSet idx })
    | _, _, _, _, _ => "bad-op"
  | ["trackers", ann, tiers] =>
    match optBytes ann, tierList tiers with
    | some ann, some tiers =>
      let r := trackers ann tiers
      "ok " ++ (if r.isEmpty then "." else joinWith "," (r.map hexOrDash))
    | _, _ => "bad-op"
  | _ => "bad-op"

end Driver.C10
