import Imdlv.Model.Metainfo
namespace Driver.C05
open Imdlv Imdlv.Bencode Imdlv.Metainfo

def optBytes (s : String) : Option (Option Bytes) :=
  if s = "~" then some none else (bytesOfHex s).map some

def hexList (s : String) (sep : String) : Option (List Bytes) :=
  if s = "" then some [] else
  (s.splitOn sep).foldr (fun x acc => match bytesOfHex x, acc with
    | some b, some l => some (b :: l)
    | _, _ => none) (some [])

def parseTiers (s : String) : Option (List (List Bytes)) :=
  if s = "" then some [] else
  (s.splitOn ";").foldr (fun x acc => match hexList x ",", acc with
    | some t, some l => some (t :: l)
    | _, _ => none) (some [])

def parseNodes (s : String) : Option (List NodeM) :=
  if s = "" then some [] else
  (s.splitOn ";").foldr (fun x acc =>
    match x.splitOn ":", acc with
    | [h, p], some l => (match bytesOfHex h, p.toNat? with
      | some h, some p => some (⟨h, p⟩ :: l)
      | _, _ => none)
    | _, _ => none) (some [])

def parseFile (s : String) : Option FileM :=
  match s.splitOn ":" with
  | [len, md5, path] =>
    match len.toNat?, optBytes md5, hexList path "," with
    | some l, some m, some p => some { length := l, path := p, md5 := m }
    | _, _, _ => none
  | _ => none

def parseMode (s : String) : Option ModeM :=
  match s.splitOn "/" with
  | "S" :: [f] =>
    match f.splitOn ":" with
    | [len, md5] => (match len.toNat?, optBytes md5 with
      | some l, some m => some (.single l m)
      | _, _ => none)
    | _ => none
  | "M" :: fs =>
    (fs.filter (· ≠ "")).foldr (fun x acc => match parseFile x, acc with
      | some f, some (.multiple l) => some (.multiple (f :: l))
      | _, _ => none) (some (.multiple []))
  | _ => none

def kv (args : List String) (k : String) : String :=
  match args.find? (fun a => a.startsWith (k ++ "=")) with
  | some a => (a.drop (k.length + 1)).toString
  | none => ""

/-- `create announce=<hex|~> tiers=… comment=… source=… nodes=… update=… name=<hex> p=<n> priv=<0|1> nocb=<0|1>
    nocd=<0|1> cb=<hex> now=<n> mode=… pieces=<hex>` → `ok <hex of the serialized metainfo>` -/
def handle (args : List String) : String :=
  match args with
  | "create" :: rest =>
    let g := kv rest
    match optBytes (g "announce"), parseTiers (g "tiers"), optBytes (g "comment"), optBytes (g "source"),
          parseNodes (g "nodes"), optBytes (g "update"), bytesOfHex (g "name"), (g "p").toNat?,
          bytesOfHex (g "cb"), (g "now").toNat?, parseMode (g "mode"), bytesOfHex (g "pieces") with
    | some announce, some tiers, some comment, some source, some nodes, some update, some name, some p,
      some cb, some now, some mode, some pieces =>
      let o : CreateOpts := { announce, tiers, comment, source, nodes, updateUrl := update, name, pieceLength := p,
                              priv := g "priv" == "1", noCreatedBy := g "nocb" == "1", noCreationDate := g "nocd" == "1" }
      "ok " ++ hexOrDash (createMetainfo o cb now mode pieces).serialize
    | _, _, _, _, _, _, _, _, _, _, _, _ => "bad-op"
  | _ => "bad-op"

end Driver.C05
