import Imdlv.Model.HostPort
import Imdlv.Model.Basic
namespace Driver.C17
open Imdlv Imdlv.HostPort

def utf8Text? (b : Bytes) : Option String := String.fromUTF8? (ByteArray.mk b.toArray)

def hostResult (text : List Char) : String :=
  -- host part as the regex sees it
  match splitLastColon text with
  | none => "err port-missing"
  | some (h, p) =>
    if p.isEmpty || !p.all isDigitCh || h.contains '\n' then
      (if p.any (fun c => c.toNat ≥ 128) then "out-of-model" else "err port-missing")
    else match hostParseC h with
      | .outOfModel => "out-of-model"
      | .reject => "err host"
      | .ok host =>
        if digitsVal p < 65536 then
          let hp := (host, digitsVal p)
          let pair := toPair hostShowPair hp
          let back := match ofPair hostParseOpt pair with
            | some hp' => String.ofList (display hostShowUrl hp')
            | none => "none"
          s!"ok {String.ofList (display hostShowUrl hp)} {String.ofList pair.1} {pair.2} {back}"
        else "err port"

/-- `parse <hex utf8>` → `ok <display> <pair host> <pair port> <display of re-read pair>` | `err …` | `out-of-model` -/
def handle (args : List String) : String :=
  match args with
  | ["parse", h] =>
    match (bytesOfHex h).bind utf8Text? with
    | none => "bad-op"
    | some s => hostResult s.toList
  | _ => "bad-op"

end Driver.C17
