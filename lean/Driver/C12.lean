import Imdlv.Model.Tracker
namespace Driver.C12
open Imdlv Imdlv.Tracker

def parseReplies (s : String) : Option (List (Option Bytes)) :=
  if s = "." then some [] else
  (s.splitOn ",").foldr (fun x acc => match acc with
    | none => none
    | some l => if x = "~" then some (none :: l) else (bytesOfHex x).map fun b => some b :: l) (some [])

def errName : XErr → String
  | .timeout => "timeout" | .malformed => "malformed" | .peerList => "peer-list"

/-- `run <stride> <ctid> <atid> <connect replies> <announce replies>` → `ok <connect sends> <announce sends> <cid|~> <peers hex,…|.|err kind>`
    `connectreq <tid>` / `announcereq <cid> <tid> <ih> <pid> <port>` → `ok <hex>`
    `command <outcomes: s|f|p:hex,hex;…>` → `ok <exit> <peers> <notes: one of s|f per reported tracker, or .>` -/
def handle (args : List String) : String :=
  match args with
  | ["run", stride, ctid, atid, cr, ar] =>
    match stride.toNat?, ctid.toNat?, atid.toNat?, parseReplies cr, parseReplies ar with
    | some stride, some ctid, some atid, some cr, some ar =>
      let (r, cid) := runTracker stride ctid atid cr ar
      let res := match r.result with
        | .ok l => if l.isEmpty then "." else joinWith "," (l.map hexOrDash)
        | .error e => "err " ++ errName e
      s!"ok {r.connectSends} {r.announceSends} {match cid with | some c => toString c | none => "~"} {res}"
    | _, _, _, _, _ => "bad-op"
  | ["connectreq", tid] =>
    match tid.toNat? with
    | some tid => "ok " ++ hexOfBytes (connectReq tid)
    | none => "bad-op"
  | ["announcereq", cid, tid, ih, pid, port] =>
    match cid.toNat?, tid.toNat?, bytesOfHex ih, bytesOfHex pid, port.toNat? with
    | some cid, some tid, some ih, some pid, some port => "ok " ++ hexOfBytes (announceReq cid tid ih pid port)
    | _, _, _, _, _ => "bad-op"
  | ["command", outs] =>
    let os : Option (List TrackerOutcome) :=
      if outs = "." then some [] else
      (outs.splitOn ";").foldr (fun x acc => match acc with
        | none => none
        | some l =>
          if x = "s" then some (.skipped :: l)
          else if x = "f" then some (.announceFailed :: l)
          else if x.startsWith "p:" then
            let body := (x.drop 2).toString
            if body = "" then some (.peers [] :: l) else
            match (body.splitOn ",").foldr (fun h a => match bytesOfHex h, a with
              | some b, some r => some (b :: r) | _, _ => none) (some []) with
            | some ps => some (.peers ps :: l)
            | none => none
          else none) (some [])
    match os with
    | some os =>
      let r := announceCommand os
      let notes := String.ofList ((announceNotes os).map fun n => match n with | .skipped => 's' | .failed => 'f')
      s!"ok {r.1} {if r.2.isEmpty then "." else joinWith "," (r.2.map hexOrDash)} {if notes.isEmpty then "." else notes}"
    | none => "bad-op"
  | _ => "bad-op"

end Driver.C12
