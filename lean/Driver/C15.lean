import Imdlv.Model.Lints
import Imdlv.Model.Basic
namespace Driver.C15
open Imdlv Imdlv.Lints

/-- `pick <n>` → `ok <piece length>`; `table` → `ok c:p,c:p,…` -/
def handle (args : List String) : String :=
  match args with
  | ["pick", n] =>
    match n.toNat? with
    | some n => s!"ok {pick n}"
    | none => "bad-op"
  | ["table"] => "ok " ++ joinWith "," (table.map fun r => s!"{r.1}:{r.2}")
  | _ => "bad-op"

end Driver.C15
