import Imdlv.Model.Peer
import Driver.Url
import Imdlv.Model.Digest
namespace Driver.C11
open Imdlv Imdlv.Peer Imdlv.Metainfo

def errName : FErr → String
  | .network => "Network" | .handshakeHeader => "PeerHandshakeHeader" | .handshakeInfohash => "PeerHandshakeInfohash"
  | .noExtensionProtocol => "PeerUtMetadataNotSupported" | .extendedPayload => "PeerMessageExtendedPayload"
  | .bencode => "PeerMessageFromBencode" | .metadataSizeNotKnown => "PeerUtMetadataMetadataSizeNotKnown"
  | .utMetadataNotSupported => "PeerUtMetadataNotSupported" | .noExtendedHandshake => "PeerNoExtendedHandshake"
  | .wrongPiece => "PeerUtMetadataWrongPiece" | .pieceLength => "PeerUtMetadataPieceLength"
  | .infoLength => "PeerUtMetadataInfoLength" | .infoDeserialize => "PeerUtMetadataInfoDeserialize"
  | .wrongInfohash => "PeerUtMetadataWrongInfohash"

def reqs (l : List Nat) : String := if l.isEmpty then "." else joinWith "," (l.map toString)

/-- `fetch <target 20-byte hex> <incoming hex>` → `ok <info hex> <requests>` | `err <variant> <requests>` -/
def handle (args : List String) : String :=
  match args with
  | ["fetch", t, inc] =>
    match bytesOfHex t, bytesOfHex inc with
    | some t, some inc =>
      let show1 := fun (x : Peer.Result InfoM) => match x with
        | .ok info r => s!"ok {hexOrDash (Bencode.encode info.toBVal)} {reqs r}"
        | .error e r => s!"err {errName e} {reqs r}"
      -- URL normalisation by the `url` crate is not modelled: when the outcome depends on whether a URL that
      -- is not already in normal form is accepted as it stands, the case is outside the model
      let a := show1 (fetch (readersC Url.urlAny) Digest.sha1 id t inc)
      let b := show1 (fetch (readersC Url.urlNormal) Digest.sha1 id t inc)
      if a == b then a else "out-of-model"
    | _, _ => "bad-op"
  | _ => "bad-op"

end Driver.C11
