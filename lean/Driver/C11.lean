import Imdlv.Model.Peer
import Imdlv.Model.Digest
namespace Driver.C11
open Imdlv Imdlv.Peer Imdlv.Metainfo

def urlOk (s : Bytes) : Bool :=
  -- `scheme://…` with an alphabetic scheme (the forms the harness generates; `Url::parse` itself is not modelled)
  let scheme := s.takeWhile fun b => (97 ≤ b && b ≤ 122) || (65 ≤ b && b ≤ 90)
  !scheme.isEmpty && (s.drop scheme.length).take 3 == [58, 47, 47]

/-- URLs that `Url::parse` leaves exactly as they are: lower-case scheme, `://`, a lower-case host
without userinfo, and a non-empty path of unreserved characters -/
def urlNormal (s : Bytes) : Bool :=
  let lower := fun (b : UInt8) => 97 ≤ b && b ≤ 122
  let digit := fun (b : UInt8) => 48 ≤ b && b ≤ 57
  let scheme := s.takeWhile lower
  let rest := s.drop scheme.length
  let host := (rest.drop 3).takeWhile fun b => lower b || digit b || b == 46 || b == 45
  let path := (rest.drop 3).drop host.length
  !scheme.isEmpty && rest.take 3 == [58, 47, 47] && !host.isEmpty && path.head? == some 47 &&
    path.all fun b => lower b || digit b || (65 ≤ b && b ≤ 90) || b == 47 || b == 46 || b == 45 || b == 95 || b == 126

def errName : FErr → String
  | .network => "Network" | .handshakeHeader => "PeerHandshakeHeader" | .handshakeInfohash => "PeerHandshakeInfohash"
  | .noExtensionProtocol => "PeerUtMetadataNotSupported" | .extendedPayload => "PeerMessageExtendedPayload"
  | .bencode => "PeerMessageFromBencode" | .metadataSizeNotKnown => "PeerUtMetadataMetadataSizeNotKnown"
  | .utMetadataNotSupported => "PeerUtMetadataNotSupported" | .noExtendedHandshake => "PeerNoExtendedHandshake"
  | .wrongPiece => "PeerUtMetadataWrongPiece" | .pieceLength => "PeerUtMetadataPieceLength"
  | .infoLength => "PeerUtMetadataInfoLength" | .infoDeserialize => "PeerUtMetadataInfoDeserialize"
  | .wrongInfohash => "PeerUtMetadataWrongInfohash"

def reqs (l : List Nat) : String := if l.isEmpty then "." else joinWith "," (l.map toString)

/-- `fetch <target 20-byte hex> <incoming hex>` → `ok <info hex> <requests>` | `err <variant> <requests>` -/
def handle (args : List String) : String :=
  match args with
  | ["fetch", t, inc] =>
    match bytesOfHex t, bytesOfHex inc with
    | some t, some inc =>
      let show1 := fun (x : Peer.Result InfoM) => match x with
        | .ok info r => s!"ok {hexOrDash (Bencode.encode info.toBVal)} {reqs r}"
        | .error e r => s!"err {errName e} {reqs r}"
      -- URL normalisation by the `url` crate is not modelled: when the outcome depends on whether a URL that
      -- is not already in normal form is accepted as it stands, the case is outside the model
      let a := show1 (fetch (readersC urlOk) Digest.sha1 id t inc)
      let b := show1 (fetch (readersC urlNormal) Digest.sha1 id t inc)
      if a == b then a else "out-of-model"
    | _, _ => "bad-op"
  | _ => "bad-op"

end Driver.C11
