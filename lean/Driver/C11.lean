import Imdlv.Model.Peer
import Imdlv.Model.Digest
namespace Driver.C11
open Imdlv Imdlv.Peer Imdlv.Metainfo

def urlOk (s : Bytes) : Bool :=
  let t := s.take 8
  t.take 7 == str "http://" || t == str "https://" || t.take 6 == str "udp://"

def errName : FErr → String
  | .network => "Network" | .handshakeHeader => "PeerHandshakeHeader" | .handshakeInfohash => "PeerHandshakeInfohash"
  | .noExtensionProtocol => "PeerUtMetadataNotSupported" | .extendedPayload => "PeerMessageExtendedPayload"
  | .bencode => "PeerMessageFromBencode" | .metadataSizeNotKnown => "PeerUtMetadataMetadataSizeNotKnown"
  | .utMetadataNotSupported => "PeerUtMetadataNotSupported" | .noExtendedHandshake => "PeerNoExtendedHandshake"
  | .wrongPiece => "PeerUtMetadataWrongPiece" | .pieceLength => "PeerUtMetadataPieceLength"
  | .infoLength => "PeerUtMetadataInfoLength" | .infoDeserialize => "PeerUtMetadataInfoDeserialize"
  | .wrongInfohash => "PeerUtMetadataWrongInfohash"

def reqs (l : List Nat) : String := if l.isEmpty then "." else joinWith "," (l.map toString)

/-- `fetch <target 20-byte hex> <incoming hex>` → `ok <info hex> <requests>` | `err <variant> <requests>` -/
def handle (args : List String) : String :=
  match args with
  | ["fetch", t, inc] =>
    match bytesOfHex t, bytesOfHex inc with
    | some t, some inc =>
      match fetch (readersC urlOk) Digest.sha1 id t inc with
      | .ok info r => s!"ok {hexOrDash (Bencode.encode info.toBVal)} {reqs r}"
      | .error e r => s!"err {errName e} {reqs r}"
    | _, _ => "bad-op"
  | _ => "bad-op"

end Driver.C11
