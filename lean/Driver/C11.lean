import Imdlv.Model.Peer
import Imdlv.Model.Digest
namespace Driver.C11
open Imdlv Imdlv.Peer Imdlv.Metainfo

def urlOk (s : Bytes) : Bool :=
  -- `scheme://…` with an alphabetic scheme (the forms the harness generates; `Url::parse` itself is not modelled)
  let scheme := s.takeWhile fun b => (97 ≤ b && b ≤ 122) || (65 ≤ b && b ≤ 90)
  !scheme.isEmpty && (s.drop scheme.length).take 3 == [58, 47, 47]

def errName : FErr → String
  | .network => "Network" | .handshakeHeader => "PeerHandshakeHeader" | .handshakeInfohash => "PeerHandshakeInfohash"
  | .noExtensionProtocol => "PeerUtMetadataNotSupported" | .extendedPayload => "PeerMessageExtendedPayload"
  | .bencode => "PeerMessageFromBencode" | .metadataSizeNotKnown => "PeerUtMetadataMetadataSizeNotKnown"
  | .utMetadataNotSupported => "PeerUtMetadataNotSupported" | .noExtendedHandshake => "PeerNoExtendedHandshake"
  | .wrongPiece => "PeerUtMetadataWrongPiece" | .pieceLength => "PeerUtMetadataPieceLength"
  | .infoLength => "PeerUtMetadataInfoLength" | .infoDeserialize => "PeerUtMetadataInfoDeserialize"
  | .wrongInfohash => "PeerUtMetadataWrongInfohash"

def reqs (l : List Nat) : String := if l.isEmpty then "." else joinWith "," (l.map toString)

/-- `fetch <target 20-byte hex> <incoming hex>` → `ok <info hex> <requests>` | `err <variant> <requests>` -/
def handle (args : List String) : String :=
  match args with
  | ["fetch", t, inc] =>
    match bytesOfHex t, bytesOfHex inc with
    | some t, some inc =>
      match fetch (readersC urlOk) Digest.sha1 id t inc with
      | .ok info r => s!"ok {hexOrDash (Bencode.encode info.toBVal)} {reqs r}"
      | .error e r => s!"err {errName e} {reqs r}"
    | _, _ => "bad-op"
  | _ => "bad-op"

end Driver.C11
