import Imdlv.Model.Hasher
namespace Driver.C01
open Imdlv Imdlv.Hasher

def parseFiles : List String → Option (List (Bytes × List Nat))
  | [] => some []
  | [_] => none
  | d :: s :: t =>
    match bytesOfHex d, natList? s, parseFiles t with
    | some b, some sc, some r => some ((b, sc) :: r)
    | _, _, _ => none

def fmtBlocks (bs : List Bytes) : String :=
  if bs.isEmpty then "." else joinWith "," (bs.map hexOrDash)

/-- `files <p> (<hex> <sched>)*` | `stdin <p> <hex> <sched>` -/
def handle (args : List String) : String :=
  match args with
  | "files" :: p :: rest =>
    match p.toNat?, parseFiles rest with
    | some p, some fs =>
      let r := hashFiles p fs
      s!"ok {fmtBlocks r.1} {fmtBlocks r.2}"
    | _, _ => "bad-op"
  | ["stdin", p, d, s] =>
    match p.toNat?, bytesOfHex d, natList? s with
    | some p, some d, some s =>
      let r := hashStdin p d s
      s!"ok {fmtBlocks r.1} {hexOrDash r.2}"
    | _, _, _ => "bad-op"
  | _ => "bad-op"

end Driver.C01
