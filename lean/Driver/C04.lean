import Imdlv.Model.Infohash
import Imdlv.Model.Digest
namespace Driver.C04
open Imdlv Imdlv.Bencode Imdlv.Infohash

def errName : IErr → String
  | .decode => "decode" | .type => "type" | .infoMissing => "info-missing" | .infoType => "info-type"

/-- `infohash <depth> <hex>` → `<ok sha1hex | err kind> <span sha1hex | none>` (model M, then spec S) -/
def handle (args : List String) : String :=
  match args with
  | ["infohash", d, h] =>
    match d.toNat?, bytesOfHex h with
    | some d, some b =>
      let m := match infohashFromInput Digest.sha1 d b with
        | .ok x => "ok " ++ hexOfBytes x
        | .error e => "err " ++ errName e
      let s := match infohashSpec Digest.sha1 b with
        | some x => hexOfBytes x
        | none => "none"
      m ++ " " ++ s
    | _, _ => "bad-op"
  | _ => "bad-op"

end Driver.C04
