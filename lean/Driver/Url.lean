import Imdlv.Model.Basic
/-!
`Url::parse` (the `url` crate) is not modelled. The drivers bracket it between two predicates: every
string is a URL (`urlAny`) and only strings that are already in normal form are (`urlNormal`: lower-case
scheme, `://`, lower-case host without userinfo, non-empty path of unreserved characters — on these the
parser is the identity). When a model's answer is the same under both, it does not depend on URL syntax
and is compared with the implementation; otherwise the case is reported as `out-of-model`.
-/
namespace Driver.Url
open Imdlv

def urlAny (_ : Bytes) : Bool := true

def urlNormal (s : Bytes) : Bool :=
  let lower := fun (b : UInt8) => 97 ≤ b && b ≤ 122
  let digit := fun (b : UInt8) => 48 ≤ b && b ≤ 57
  let scheme := s.takeWhile lower
  let rest := s.drop scheme.length
  let host := (rest.drop 3).takeWhile fun b => lower b || digit b || b == 46 || b == 45
  let path := (rest.drop 3).drop host.length
  !scheme.isEmpty && rest.take 3 == [58, 47, 47] && !host.isEmpty && path.head? == some 47 &&
    path.all fun b => lower b || digit b || (65 ≤ b && b ≤ 90) || b == 47 || b == 46 || b == 45 || b == 95 || b == 126

end Driver.Url
