import Imdlv.Model.Walker
namespace Driver.C06
open Imdlv Imdlv.Walker

/-- entries until `end`; returns the remaining tokens -/
partial def parseEntries : List String → Option (Entries × List String)
  | "end" :: rest => some (.nil, rest)
  | "f" :: n :: s :: rest => do
    let name ← bytesOfHex n; let size ← s.toNat?
    let (t, r) ← parseEntries rest
    pure (.cons name (.file size) t, r)
  | "lf" :: n :: s :: rest => do
    let name ← bytesOfHex n; let size ← s.toNat?
    let (t, r) ← parseEntries rest
    pure (.cons name (.linkFile size) t, r)
  | "o" :: n :: rest => do
    let name ← bytesOfHex n
    let (t, r) ← parseEntries rest
    pure (.cons name .other t, r)
  | "d" :: n :: rest => do
    let name ← bytesOfHex n
    let (sub, r1) ← parseEntries rest
    let (t, r) ← parseEntries r1
    pure (.cons name (.dir sub) t, r)
  | "ld" :: n :: rest => do
    let name ← bytesOfHex n
    let (sub, r1) ← parseEntries rest
    let (t, r) ← parseEntries r1
    pure (.cons name (.linkDir sub) t, r)
  | _ => none

def parseRoot : List String → Option Node
  | ["rootfile", s] => s.toNat?.map .file
  | ["rootlinkfile", s] => s.toNat?.map .linkFile
  | "rootdir" :: rest => (parseEntries rest).map fun x => .dir x.1
  | "rootlinkdir" :: rest => (parseEntries rest).map fun x => .linkDir x.1
  | _ => none

def parseSpecs (s : String) : Option (List SortSpec) :=
  if s = "-" then some [] else
  (s.splitOn ",").foldr (fun x acc => match x, acc with
    | "pa", some l => some (⟨.path, .ascending⟩ :: l)
    | "pd", some l => some (⟨.path, .descending⟩ :: l)
    | "sa", some l => some (⟨.size, .ascending⟩ :: l)
    | "sd", some l => some (⟨.size, .descending⟩ :: l)
    | _, _ => none) (some [])

def parseGlobs (s : String) : Option (List (Pattern Bytes)) :=
  if s = "-" then some [] else
  (s.splitOn ",").foldr (fun x acc => match (if x = "~" then some [] else bytesOfHex x), acc with
    | some g, some l =>
      if g.head? == some 33 then some (⟨g.tail, false⟩ :: l) else some (⟨g, true⟩ :: l)
    | _, _ => none) (some [])

def fmtPath (p : List Bytes) : String := joinWith "," (p.map hexOrDash)

/-- `files <hidden> <junk> <follow> <globs> <specs> <root…>` -/
def handle (args : List String) : String :=
  match args with
  | "files" :: h :: j :: f :: globs :: specs :: root =>
    match parseGlobs globs, parseSpecs specs, parseRoot root with
    | some pats, some specs, some root =>
      let fl : Flags := { includeHidden := h == "1", includeJunk := j == "1", follow := f == "1" }
      match files fl globMatch pats specs root with
      | .error .symlinkRoot => "refuse symlink-root"
      | .ok (.single s) => s!"ok single {s}"
      | .ok (.multiple fs) => "ok multi " ++ (if fs.isEmpty then "-" else joinWith ";" (fs.map fun e => fmtPath e.path))
    | _, _, _ => "bad-op"
  | _ => "bad-op"

end Driver.C06
