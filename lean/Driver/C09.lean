import Imdlv.Model.CreateFx
namespace Driver.C09
open Imdlv.CreateFx

def nodeOf (s : String) : Node :=
  if s == "file" then .file [0] else if s == "dir" then .dir else .absent

/-- `create <force> <dryrun> <stdout|path> <state at target> <state at target/name.torrent> <none|early|hashing|open>`
 → `fail` | `noop` | `write target` | `write inner` -/
def handle (args : List String) : String :=
  match args with
  | ["create", f, d, tgt, st, inner, fault] =>
    let fs : FS := fun p => if p = "T" then nodeOf st else if p = "T/n.torrent" then nodeOf inner else .absent
    let flt : Fault := if fault == "early" then .beforeOutputCheck else if fault == "hashing" then .whileHashing
      else if fault == "open" then .atOpen else .none
    let r : Req := { force := f == "1", dryRun := d == "1", target := if tgt == "stdout" then .stdout else .path "T",
                     torrentName := "n.torrent", fault := flt, bytes := [1] }
    match decision fs r with
    | .fail => "fail"
    | .noop => "noop"
    | .write out => if out = "T" then "write target" else "write inner"
  | _ => "bad-op"

end Driver.C09
