import Imdlv.Model.CreateFx
namespace Driver.C09
open Imdlv.CreateFx

def nodeOf (s : String) : Node :=
  if s == "file" then .file [0] else if s == "dir" then .dir else if s == "dangling" then .link "L" else .absent

/-- `create <force> <dryrun> <stdout|path> <state at target> <state at target/name.torrent> <none|early|hashing|open> [<state at target at open time>]`
 → `fail` | `noop` | `write target` | `write inner` | `write link` -/
def handle (args : List String) : String :=
  match args with
  | "create" :: f :: d :: tgt :: st :: inner :: fault :: rest =>
    let fs : FS := fun p => if p = "T" then nodeOf st else if p = "T/n.torrent" then nodeOf inner else .absent
    -- optional interference: what is at the target when it is finally opened
    let fsOpen : FS := match rest with
      | [late] => fun p => if p = "T" then nodeOf late else fs p
      | _ => fs
    let flt : Fault := if fault == "early" then .beforeOutputCheck else if fault == "hashing" then .whileHashing
      else if fault == "open" then .atOpen else .none
    let r : Req := { force := f == "1", dryRun := d == "1", target := if tgt == "stdout" then .stdout else .path "T",
                     torrentName := "n.torrent", fault := flt, bytes := [1] }
    match decisionAt fs fsOpen r with
    | .fail => "fail"
    | .noop => "noop"
    | .write out => if out = "T" then "write target" else if out = "L" then "write link" else "write inner"
  | _ => "bad-op"

end Driver.C09
