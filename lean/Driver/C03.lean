import Imdlv.Model.Verifier
import Imdlv.Model.Digest
import Imdlv.Model.Paths
namespace Driver.C03
open Imdlv Imdlv.Verifier

def parsePath (s : String) : Option RelPath :=
  if s = "." then some [] else
    (s.splitOn ",").foldr (fun x acc => match bytesOfHex x, acc with
      | some b, some l => some (b :: l)
      | _, _ => none) (some [])

def parseNode (s : String) : Option Node :=
  if s = "D" then some .dir
  else if s = "M" then some .missing
  else if s = "E" then some .ioError
  else if s.startsWith "F" then (bytesOfHex (s.drop 1).toString).map .file
  else none

def parseMd5 (s : String) : Option (Option Bytes) :=
  if s = "-" then some none else (bytesOfHex s).map some

/-- entries: `<path> <len> <md5|-> <node>` repeated -/
def parseEntries : List String → Option (List (FileEntry Bytes × Node))
  | [] => some []
  | p :: l :: m :: n :: t =>
    match parsePath p, l.toNat?, parseMd5 m, parseNode n, parseEntries t with
    | some p, some l, some m, some n, some r => some (({ path := p, length := l, md5 := m }, n) :: r)
    | _, _, _, _, _ => none
  | _ => none

def splitDigests (fuel : Nat) (b : Bytes) : List Bytes :=
  match fuel with
  | 0 => []
  | f + 1 => if b.isEmpty then [] else b.take 20 :: splitDigests f (b.drop 20)

def fsOf (es : List (FileEntry Bytes × Node)) : FS := fun p =>
  match es.find? (fun e => e.1.path == p) with
  | some e => e.2
  | none => .missing

def errKind : FileErr → String
  | .io => "io" | .missing => "missing" | .directory => "directory"
  | .surfeit _ => "surfeit" | .dearth _ => "dearth" | .md5 => "md5"

def codes (cs : Paths.CPath) : String :=
  if cs.isEmpty then "-" else joinWith "," (cs.map fun c => match c with
    | .root => "R" | .cur => "C" | .parent => "P" | .normal s => "N" ++ hexOfBytes s)

/-- `verify <p> <pieces hex> <S|M> (<path> <len> <md5|-> <node>)*`
 → `ok <good> <piecesOk> <path:kind;…|->` | `refuse <why>`
 `leaves <path>` → `ok 0|1` -/
def handle (args : List String) : String :=
  match args with
  | "verify" :: p :: pieces :: mode :: rest =>
    match p.toNat?, bytesOfHex pieces, parseEntries rest with
    | some p, some pieces, some es =>
      let files := es.map Prod.fst
      let md : Option (Mode Bytes) :=
        if mode = "S" then (match files with
          | [f] => some (.single f.length f.md5)
          | _ => none)
        else some (.multiple files)
      match md with
      | none => "bad-op"
      | some md =>
        let t : Torrent Bytes Bytes := { pieceLength := p, pieces := splitDigests (pieces.length + 1) pieces, mode := md }
        -- in single mode the entry path is the root itself
        let es' := if mode = "S" then es.map (fun e => ({ e.1 with path := [] }, e.2)) else es
        match verify Digest.sha1 Digest.md5 t (fsOf es') [] with
        | .error .pieceLengthTooLarge => "refuse piece-length-too-large"
        | .error .pieceLengthZero => "refuse piece-length-zero"
        | .error .pathComponent => "refuse path-component"
        | .ok s =>
          let errs := s.errors.map fun (pth, e) => joinWith "," (pth.map hexOrDash) ++ ":" ++ errKind e
          s!"ok {if s.good then 1 else 0} {if s.piecesOk then 1 else 0} {if errs.isEmpty then "-" else joinWith ";" errs}"
    | _, _, _ => "bad-op"
  -- path algebra (`~` = option absent, `-` = empty text)
  -- components coded `R`, `C`, `P`, `N<hex>` and joined with `,` (`-` for none)
  | ["comps", p] =>
    match bytesOfHex p with
    | some p => "ok " ++ codes (Paths.comps p)
    | none => "bad-op"
  | ["lexiclean", p] =>
    match bytesOfHex p with
    | some p => "ok " ++ codes (Paths.lexiclean (Paths.comps p))
    | none => "bad-op"
  | ["join", a, c] =>
    match bytesOfHex a, bytesOfHex c with
    | some a, some c => "ok " ++ codes (Paths.joinC (Paths.comps a) (Paths.comps c))
    | _, _ => "bad-op"
  | ["pnorm", p] =>
    match bytesOfHex p with
    | some p => "ok " ++ hexOrDash (Paths.render (Paths.comps p))
    | none => "bad-op"
  | ["resolve", cwd, p] =>
    match bytesOfHex cwd, bytesOfHex p with
    | some cwd, some p => "ok " ++ hexOrDash (Paths.render (Paths.resolve (Paths.comps cwd) (Paths.comps p)))
    | _, _ => "bad-op"
  | ["contentroot", c, b, t, name] =>
    let opt (s : String) : Option (Option Paths.CPath) :=
      if s = "~" then some none else (bytesOfHex s).map (fun x => some (Paths.comps x))
    match opt c, opt b, opt t, bytesOfHex name with
    | some c, some b, some t, some name =>
      "ok " ++ hexOrDash (Paths.render (Paths.contentRoot c b t (Paths.comps name)))
    | _, _, _, _ => "bad-op"
  | ["torrentpath", cwd, input] =>
    match bytesOfHex cwd, bytesOfHex input with
    | some cwd, some input =>
      (match Paths.createDefaultOutput (Paths.comps cwd) (Paths.comps input) with
       | some out => "ok " ++ hexOrDash (Paths.render out)
       | none => "none")
    | _, _ => "bad-op"
  | ["leaves", p] =>
    match parsePath p with
    | some p => s!"ok {if leavesRoot p then 1 else 0}"
    | none => "bad-op"
  | _ => "bad-op"

end Driver.C03
