import Imdlv.Model.Completions
import Imdlv.Model.Basic
namespace Driver.C19
open Imdlv Imdlv.Completions

def opt (s : String) : Option String := if s = "~" then none else some s

/-- `dispatch <flag|~> <positional|~> <dir 0|1>` → `usage` | `internal` | `print <shell>` | `write <file>:<shell>,…` -/
def handle (args : List String) : String :=
  match args with
  | ["dispatch", f, p, d] =>
    match dispatch (fun sh => sh) (opt f) (opt p) (d == "1") with
    | .usageError => "usage"
    | .internalError => "internal"
    | .print sh => s!"print {sh}"
    | .write fs => "write " ++ joinWith "," (fs.map fun x => s!"{x.1}:{x.2}")
  | _ => "bad-op"

end Driver.C19
